------------------------------- MODULE Polys -------------------------------
(***************************************************************************)
(* Free-module / free-algebra layer over Rings.tla.  A polynomial (or a    *)
(* formal linear combination of generators) over the ring R.b is a value   *)
(* of ring kind "P": a function from a finite set of exponents (keys) to   *)
(* coefficients.  The *mathematical* element is the function extended by   *)
(* zero; the canonical representative stores no zero coefficient.          *)
(* This module adds what Rings.tla does not have: construction from a term *)
(* list with repeats, scalar multiples, evaluation, push-forward along a   *)
(* map of keys (map_gens), restriction (filter_gens), substitution of a    *)
(* combination for every key (apply) and the general bilinear `combine`.   *)
(***************************************************************************)
EXTENDS Rings

\* ---------------------------------------------------------------- exponents
ENeg(nv, e)    == IF nv = 0 THEN 0 - e ELSE [i \in 1..nv |-> 0 - e[i]]
ENonNeg(nv, e) == IF nv = 0 THEN e >= 0 ELSE \A i \in 1..nv : e[i] >= 0
ELeq(nv, e, f) == IF nv = 0 THEN e <= f ELSE \A i \in 1..nv : e[i] <= f[i]
EUnit(nv, i)   == IF nv = 0 THEN 1 ELSE [j \in 1..nv |-> IF j = i THEN 1 ELSE 0]      \* the variable x_i (i is 1-based)

\* ---------------------------------------------------------------- values
PSupp(f)        == DOMAIN f
PNTerms(R, f)   == Cardinality({e \in DOMAIN f : ~RIsZero(R.b, f[e])})
PCanonOf(R, f)  == PClean(R, DOMAIN f, f)
PConst(R, c)    == PMono(R, EZero(R.nv), c)
PIsConst(R, f)  == \A e \in DOMAIN f : RIsZero(R.b, f[e]) \/ e = EZero(R.nv)
PIsOne(R, f)    == RSame(R, f, ROne(R))

\* sum of a list of terms <<key, coefficient>> (keys may repeat, coefficients may be zero)
PFromTerms(R, ts) ==
    LET E == {ts[i][1] : i \in 1..Len(ts)}
        s == [e \in E |-> RSumSeq(R.b, LET ix == SetToSeq({i \in 1..Len(ts) : ts[i][1] = e})
                                        IN [j \in 1..Len(ix) |-> ts[ix[j]][2]])]
    IN PClean(R, E, s)

\* the list of terms of f (some order)
PTerms(f) == LET es == SetToSeq(DOMAIN f) IN [i \in 1..Len(es) |-> <<es[i], f[es[i]]>>]

\* c * f  (coefficients commute in every ring considered)
PScale(R, c, f) == PClean(R, DOMAIN f, [e \in DOMAIN f |-> RMul(R.b, f[e], c)])

RECURSIVE PPow(_,_,_)
PPow(R, f, n) == IF n = 0 THEN ROne(R) ELSE RMul(R, PPow(R, f, n-1), f)

\* ---------------------------------------------------------------- evaluation (exponents >= 0)
\* pt: a value of R.b (nv = 0) or an nv-tuple of values of R.b
EEval(R, e, pt) ==
    IF R.nv = 0 THEN RPow(R.b, pt, e)
    ELSE FoldLeft(LAMBDA acc, i : RMul(R.b, acc, RPow(R.b, pt[i], e[i])), ROne(R.b), [i \in 1..R.nv |-> i])
PEval(R, f, pt) ==
    LET es == SetToSeq(DOMAIN f) IN
    RSumSeq(R.b, [i \in 1..Len(es) |-> RMul(R.b, f[es[i]], EEval(R, es[i], pt))])

\* ---------------------------------------------------------------- module homomorphisms on keys
\* push-forward along phi : keys -> keys (phi a function defined on the support); non-injective maps add up
PMapGens(R, f, phi)  == PFromTerms(R, LET t == PTerms(f) IN [i \in 1..Len(t) |-> <<phi[t[i][1]], t[i][2]>>])
\* restriction to the keys in K
PFilter(R, f, K)     == [e \in (DOMAIN f) \cap K |-> f[e]]
\* substitution: every key g is replaced by the combination F[g]
PApply(R, f, F)      == LET t == PTerms(f) IN
                        FoldLeft(LAMBDA acc, i : RAdd(R, acc, PScale(R, t[i][2], F[t[i][1]])), PEmpty, [i \in 1..Len(t) |-> i])
\* bilinear extension of a map km : keys x keys -> keys
PCombine(R, x, y, km(_,_)) ==
    LET tx == PTerms(x)  ty == PTerms(y) IN
    PFromTerms(R, [k \in 1..(Len(tx) * Len(ty)) |->
                     LET i == ((k-1) \div Len(ty)) + 1   j == ((k-1) % Len(ty)) + 1
                     IN <<km(tx[i][1], ty[j][1]), RMul(R.b, tx[i][2], ty[j][2])>>])

\* ---------------------------------------------------------------- units of R.b[x] / R.b[x, x^-1] (R.b a domain)
\* lau: negative exponents allowed.  A unit is a single term with invertible coefficient and invertible monomial.
PIsUnit(R, f, lau) == /\ Cardinality(DOMAIN f) = 1
                      /\ \A e \in DOMAIN f : RIsUnit(R.b, f[e]) /\ (lau \/ e = EZero(R.nv))
=============================================================================
