------------------------------- MODULE Chars -------------------------------
(* Strings as sequences of Unicode code points (the harness projects every String that way, so that no non-ASCII literal is
   needed in a specification): decimal digits of integers, joining, searching. *)
EXTENDS Integers, Sequences
RECURSIVE DigitsOf(_)
\* decimal digits of n >= 0, most significant first; 0 -> <<0>>
DigitsOf(n) == IF n < 10 THEN <<n>> ELSE Append(DigitsOf(n \div 10), n % 10)
Absv(n)     == IF n < 0 THEN -n ELSE n
\* ASCII decimal representation of an integer ("-12" -> <<45, 49, 50>>)
DecCodes(n) == LET ds == DigitsOf(Absv(n)) IN
               (IF n < 0 THEN <<45>> ELSE <<>>) \o [k \in 1..Len(ds) |-> 48 + ds[k]]
RECURSIVE JoinCodes(_, _)
\* parts joined with the separator sequence
JoinCodes(parts, sep) == IF Len(parts) = 0 THEN <<>>
                         ELSE IF Len(parts) = 1 THEN parts[1]
                         ELSE parts[1] \o sep \o JoinCodes(Tail(parts), sep)
HasCode(s, c) == \E k \in 1..Len(s) : s[k] = c
\* value of a sequence of decimal digits
RECURSIVE ValueOf(_)
ValueOf(ds) == IF Len(ds) = 0 THEN 0 ELSE 10 * ValueOf(SubSeq(ds, 1, Len(ds) - 1)) + ds[Len(ds)]
=============================================================================
