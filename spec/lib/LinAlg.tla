------------------------------- MODULE LinAlg -------------------------------
(***************************************************************************)
(* Exact integer linear algebra on small matrices of TLC integers          *)
(* (sequences of rows): rank over Q and over F_p, invariant factors        *)
(* (Smith normal form by elimination), homology of a pair of composable    *)
(* integer matrices.  These operators are the definition-level oracle for  *)
(* C01-C08; they are model-checked against the gcd-of-minors definition in *)
(* MC_LinAlg.                                                              *)
(***************************************************************************)
EXTENDS Integers, Sequences, FiniteSets, SequencesExt, FiniteSetsExt

LAbs(x) == IF x < 0 THEN -x ELSE x
NRows(A) == Len(A)
NCols(A) == IF Len(A) = 0 THEN 0 ELSE Len(A[1])
LMat(m, n, f(_,_)) == [i \in 1..m |-> [j \in 1..n |-> f(i, j)]]
LMul(A, B, n) ==      \* A: m x k, B: k x n (n given explicitly for the zero-dimensional cases)
    LMat(NRows(A), n, LAMBDA i, j : FoldLeft(LAMBDA acc, k : acc + A[i][k] * B[k][j], 0, [k \in 1..Len(B) |-> k]))
LIsZero(A) == \A i \in 1..NRows(A) : \A j \in 1..NCols(A) : A[i][j] = 0

\* ------------------------------------------------------------ Smith normal form over Z
SwapRowsL(A, i, k) == [r \in 1..Len(A) |-> IF r = i THEN A[k] ELSE IF r = k THEN A[i] ELSE A[r]]
SwapColsL(A, j, k) == [r \in 1..Len(A) |-> [c \in 1..Len(A[r]) |-> IF c = j THEN A[r][k] ELSE IF c = k THEN A[r][j] ELSE A[r][c]]]
\* floor division towards zero remainder of smaller absolute value
QuoT(a, b) == IF (a >= 0) = (b > 0) THEN LAbs(a) \div LAbs(b) ELSE -(LAbs(a) \div LAbs(b))

\* bring the non-zero entry of least absolute value to (1,1)
MinPos(A) == LET NZ == {<<i, j>> \in (1..NRows(A)) \X (1..NCols(A)) : A[i][j] # 0}
                 best == CHOOSE p \in NZ : \A q \in NZ : LAbs(A[p[1]][p[2]]) <= LAbs(A[q[1]][q[2]])
             IN \* on ties the current corner entry stays the pivot: the least absolute value then strictly decreases
                \* from one round to the next, which makes the elimination terminate
                IF A[1][1] # 0 /\ LAbs(A[1][1]) = LAbs(A[best[1]][best[2]]) THEN <<1, 1>> ELSE best
\* one round: subtract multiples of row 1 / column 1 from the others
ReduceRound(A) ==
    LET a == A[1][1]
        B == [i \in 1..NRows(A) |-> IF i = 1 THEN A[1] ELSE
                 LET q == QuoT(A[i][1], a) IN [j \in 1..NCols(A) |-> A[i][j] - q * A[1][j]]]
        C == [i \in 1..NRows(B) |-> [j \in 1..NCols(B) |-> IF j = 1 THEN B[i][1] ELSE B[i][j] - QuoT(B[1][j], a) * B[i][1]]]
    IN C
RowColClear(A) == (\A i \in 2..NRows(A) : A[i][1] = 0) /\ (\A j \in 2..NCols(A) : A[1][j] = 0)
\* an entry of the remaining block not divisible by the pivot (if any): add its row to row 1
BadEntry(A) == {<<i, j>> \in (2..NRows(A)) \X (2..NCols(A)) : A[i][j] % LAbs(A[1][1]) # 0}
\* TLC evaluates LET definitions and operator arguments lazily and may re-evaluate them on every use; bound
\* variables of a set constructor are concrete values.  Binding the intermediate matrices this way keeps the
\* recursion linear instead of exponential.
RECURSIVE Pivot1(_)
Pivot1Tail(C) ==
    IF ~RowColClear(C) THEN Pivot1(C)
    ELSE IF BadEntry(C) = {} THEN C
    ELSE LET b == CHOOSE b \in BadEntry(C) : TRUE IN
         Pivot1([i \in 1..NRows(C) |-> IF i = 1 THEN [j \in 1..NCols(C) |-> C[1][j] + C[b[1]][j]] ELSE C[i]])
Pivot1(A) ==   \* A non-zero: returns a matrix with A[1][1] dividing everything, row 1 and column 1 otherwise zero
    CHOOSE R \in {Pivot1Tail(C) : C \in {ReduceRound(B) : B \in {SwapColsL(SwapRowsL(A, 1, p[1]), 1, p[2]) : p \in {MinPos(A)}}}} : TRUE
RECURSIVE InvFactors(_)
InvFactorsPivoted(C) == <<LAbs(C[1][1])>> \o InvFactors([i \in 1..NRows(C)-1 |-> [j \in 1..NCols(C)-1 |-> C[i+1][j+1]]])
InvFactors(A) ==   \* the non-zero invariant factors d1 | d2 | ..., all positive
    IF NRows(A) = 0 \/ NCols(A) = 0 \/ LIsZero(A) THEN <<>>
    ELSE CHOOSE r \in {InvFactorsPivoted(C) : C \in {Pivot1(A)}} : TRUE
RankZ(A) == Len(InvFactors(A))
Torsion(A) == SelectSeq(InvFactors(A), LAMBDA d : d > 1)

\* ------------------------------------------------------------ rank over F_p
PInv(a, p) == CHOOSE x \in 1..p-1 : (a * x) % p = 1
ModM(A, p) == [i \in 1..NRows(A) |-> [j \in 1..NCols(A) |-> ((A[i][j] % p) + p) % p]]
RECURSIVE RankP(_,_)
RankPStep(B, p) ==      \* B reduced mod p with B[1][1] # 0
    LET inv == PInv(B[1][1], p) IN
    1 + RankP([i \in 1..NRows(B)-1 |-> [j \in 1..NCols(B)-1 |->
                  (((B[i+1][j+1] - ((B[i+1][1] * inv) % p) * B[1][j+1]) % p) + p) % p]], p)
RankP(A, p) ==
    CHOOSE r \in {IF NRows(M) = 0 \/ NCols(M) = 0 \/ LIsZero(M) THEN 0
                  ELSE CHOOSE x \in {RankPStep(B, p) : B \in {SwapColsL(SwapRowsL(M, 1, q[1]), 1, q[2]) :
                                          q \in {CHOOSE q \in {<<i, j>> \in (1..NRows(M)) \X (1..NCols(M)) : M[i][j] # 0} : TRUE}}} : TRUE
                  : M \in {ModM(A, p)}} : TRUE

\* ------------------------------------------------------------ homology of C1 --din--> C2 --dout--> C3
\* din: n x a (columns = generators of C1), dout: b x n; n = rank of C2 given explicitly
\* H = Z^rank (+) Z/t1 (+) ... with rank = n - rk(din) - rk(dout), torsion = non-unit invariant factors of din
HRank(n, din, dout) == n - RankZ(din) - RankZ(dout)
HTors(din) == Torsion(din)
HDimP(n, din, dout, p) == n - RankP(din, p) - RankP(dout, p)
=============================================================================
