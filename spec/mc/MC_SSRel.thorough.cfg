CONSTANTS
  AbsN = 100
  AbsSS = 100
  MaxDepth = 1
  MaxCross = 6
  SeedMax = 5
  DefN = 4
SPECIFICATION MCSpec
INVARIANTS Knot LitGhost WindowOK XChangeThm DefThm GhostWrithe GhostComps DiagramOK
VIEW View
CHECK_DEADLOCK FALSE
