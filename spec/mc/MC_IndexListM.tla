--------------------------- MODULE MC_IndexListM ---------------------------
(* every sequence of length <= L over 1..K (with and without repetition) as argument of from_iter; every observer with
   every candidate answer (only the right one is enabled: action census shows no observer is vacuous) *)
EXTENDS IndexListM, TLC
CONSTANTS K, L
Seqs  == UNION {[1..n -> 1..K] : n \in 0..L}
Outs  == -1..L
MNext == \/ New
         \/ \E xs \in Seqs : FromIter(xs)
         \/ \E o \in Outs : LenIs(o)
         \/ \E o \in BOOLEAN : IsEmptyIs(o)
         \/ \E x \in 1..K, o \in BOOLEAN : ContainsIs(x, o)
         \/ \E x \in 1..K, o \in Outs : IndexOfIs(x, o)
         \/ \E o \in Seqs : IterIs(o)
         \/ \E i \in 0..L, o \in 1..K : IndexIs(i, o)
         \/ \E i \in 0..L : IndexPanics(i)
         \/ \E o \in Seqs : IntoIterIs(o)
         \/ \E ys \in Seqs, o \in BOOLEAN : EqIs(ys, o)
         \/ AnyPanics
MSpec == Init /\ [][MNext]_ivars
\* in a valid state exactly one answer of every observer is enabled
Deterministic == valid => /\ Cardinality({o \in Outs : ENABLED LenIs(o)}) = 1
                          /\ \A x \in 1..K : Cardinality({o \in Outs : ENABLED IndexOfIs(x, o)}) = 1
                          /\ \A i \in 0..L : (ENABLED IndexPanics(i)) # (\E o \in 1..K : ENABLED IndexIs(i, o))
                          /\ ~ENABLED AnyPanics
=============================================================================
