CONSTANTS
  N = 1200
SPECIFICATION MSpec
INVARIANT ScriptOK
INVARIANT SignOK
INVARIANT ParenOK
INVARIANT LcOK
CHECK_DEADLOCK FALSE
