----------------------------- MODULE MC_TopSort -----------------------------
(* On every digraph with vertices 1..3 (self-loops included): an admissible order exists iff the peeling
   operator says the graph is acyclic - the acyclicity operator agrees with the definition. *)
EXTENDS TopSort, TLC
K == 1..3
Graphs == [K -> SUBSET K]
AsSucc(g) == [k \in K |-> LET S == g[k] IN IF S = {} THEN <<>> ELSE
                 [x \in 1..Cardinality(S) |-> CHOOSE v \in S : Cardinality({w \in S : w < v}) = x - 1]]
Perms == {p \in [1..3 -> K] : {p[i] : i \in 1..3} = K}
AllOK == \A g \in Graphs : AcyclicG(K, AsSucc(g)) <=> (\E p \in Perms : OrderOK(K, AsSucc(g), p))
MSpec == Init /\ [][FALSE /\ calls' = calls]_calls
=============================================================================
