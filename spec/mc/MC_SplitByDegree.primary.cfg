CONSTANTS
  QDegs = {0, 2, 4}
  Orders = {2, 3, 4, 6, 9}
  MaxSummands = 4
  Mode = "primary"
SPECIFICATION Spec
INVARIANTS NormalizeIsSmith SplitAgrees TotalKept
CHECK_DEADLOCK FALSE
