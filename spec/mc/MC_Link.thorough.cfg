CONSTANTS
  MaxStrands = 3
  MaxLen = 3
  MaxDepth = 2
  MaxCross = 4
SPECIFICATION MCSpec
INVARIANTS GhostWrithe GhostComps DiagramOK CompsThm OriThm ResThm PartialThm
VIEW View
CHECK_DEADLOCK FALSE
