------------------------------- MODULE MC_UCT -------------------------------
(***************************************************************************)
(* Exhaustive model for C03.  The "link" is replaced by a small bigraded    *)
(* complex of free abelian groups C^0 -> C^1 -> C^2 (one piece per q-degree, *)
(* integer matrices); its tables over Z, Q, F2, F3 are computed from the    *)
(* definition with LinAlg.tla (Smith normal form, modular ranks) and        *)
(* reported to the machine of UCT.tla under all 24 keys.                    *)
(*   Accepts     every definitional table is a Report step (the contract of *)
(*               UCT.tla is a theorem on this family, i.e. it can never     *)
(*               alarm on a correct implementation here);                   *)
(*   Sensitive   a definitional table with one rank raised, or with one     *)
(*               torsion summand moved to another q-degree of the same      *)
(*               homological degree (the defect pattern of into_bigraded),  *)
(*               is NOT a Report step.                                      *)
(* The reduced theory is the complex R itself (q-degrees 0, 2), the          *)
(* unreduced one is R{-1} + R{+1} (q-degrees -1, 1, 3), which is what        *)
(* tensoring with the homology of the unknot does over F2.  The "total"     *)
(* route lists torsion in primary form, the "pieces" route as invariant     *)
(* factors: the same group presented in two ways.                           *)
(***************************************************************************)
EXTENDS UCT, LinAlg

CONSTANTS V,          \* entries of the general piece
          DiagVals    \* entries of the diagonal piece

VARIABLES cx,         \* the reduced complex: q |-> [d0 |-> 2 x 1 matrix, d1 |-> 1 x 2 matrix]
          n           \* number of keys reported
mvars == <<lk, tabs, cx, n>>
VSmall == -2..3
VTiny == -1..2

\* ---------------------------------------------------------------- the family
General == {p \in [d0 : [1..2 -> [1..1 -> V]], d1 : [1..1 -> [1..2 -> V]]] :
               p.d1[1][1] * p.d0[1][1] + p.d1[1][2] * p.d0[2][1] = 0}
Diag    == {[d0 |-> <<<<a>>, <<0>>>>, d1 |-> <<<<0, d>>>>] : a \in DiagVals, d \in DiagVals}
Zero21  == <<<<0>>, <<0>>>>
Zero12  == <<<<0, 0>>>>

\* direct sum of two pieces
BlockDiag(A, ma, na, B, mb, nb) == LMat(ma + mb, na + nb, LAMBDA i, j :
    IF i <= ma /\ j <= na THEN A[i][j] ELSE IF i > ma /\ j > na THEN B[i - ma][j - na] ELSE 0)
Sum(P, Q) == [d0 |-> BlockDiag(P.d0, 2, 1, Q.d0, 2, 1), d1 |-> BlockDiag(P.d1, 1, 2, Q.d1, 1, 2), m |-> 2]
One(P)    == [d0 |-> P.d0, d1 |-> P.d1, m |-> 1]
\* graded pieces of the two theories: q |-> piece with multiplicity m (ranks m, 2m, m)
RedCx   == [q \in {0, 2} |-> One(cx[q])]
UnredCx == [q \in {-1, 1, 3} |-> CASE q = -1 -> One(cx[0]) [] q = 3 -> One(cx[2]) [] OTHER -> Sum(cx[0], cx[2])]

\* ---------------------------------------------------------------- tables from the definition
PrimaryList(t) == LET B == Primary(t) IN
    FoldLeft(LAMBDA acc, x : acc \o [k \in 1..B[x] |-> x], <<>>, SetToSortSeq(DOMAIN B, <))
CellOf(P, i, q, k) ==
    LET ni   == IF i = 1 THEN 2 * P.m ELSE P.m
        din  == CASE i = 0 -> <<>> [] i = 1 -> P.d0 [] i = 2 -> P.d1
        dout == CASE i = 0 -> P.d0 [] i = 1 -> P.d1 [] i = 2 -> <<>>
        p    == CharOf(k.ring)
        rk   == IF p = 0 THEN HRank(ni, din, dout) ELSE HDimP(ni, din, dout, p)
        ts   == IF k.ring \in ZRings THEN (IF k.route = "total" THEN PrimaryList(HTors(din)) ELSE HTors(din)) ELSE <<>>
    IN  <<i, q, rk, ts>>
DefTable(k) ==
    LET C  == IF k.red THEN RedCx ELSE UnredCx
        qs == SetToSortSeq(DOMAIN C, <)
        all == FoldLeft(LAMBDA acc, q : acc \o <<CellOf(C[q], 0, q, k), CellOf(C[q], 1, q, k), CellOf(C[q], 2, q, k)>>, <<>>, qs)
    IN  SelectSeq(all, LAMBDA c : c[3] > 0 \/ c[4] # <<>>)

\* ---------------------------------------------------------------- the run
KeyOrder ==
    LET one(red) == <<RefKey(red)>> \o SetToSeq({k \in Keys : k.red = red /\ k # RefKey(red)})
    IN  one(FALSE) \o one(TRUE)

MCInit == UInit /\ cx = [q \in {0, 2} |-> [d0 |-> Zero21, d1 |-> Zero12]] /\ n = -1
Start  == /\ n = -1
          /\ \E g \in General, d \in Diag : cx' = [q \in {0, 2} |-> IF q = 0 THEN g ELSE d]
          /\ NewLink("cx") /\ n' = 0
ReportNext ==
          /\ n >= 0 /\ n < Len(KeyOrder)
          /\ Report(KeyOrder[n + 1], DefTable(KeyOrder[n + 1]))
          /\ n' = n + 1 /\ UNCHANGED cx
MCNext == Start \/ ReportNext
MCSpec == MCInit /\ [][MCNext]_mvars

\* ---------------------------------------------------------------- invariants
NextKey == KeyOrder[n + 1]
Accepts == (n >= 0 /\ n < Len(KeyOrder)) =>
              /\ ReportPre(NextKey)
              /\ WellFormed(NextKey.ring, DefTable(NextKey))
              /\ Objections(tabs, NextKey, TabFn(DefTable(NextKey))) = {}

\* mutations of a table (sequence form)
RaiseRank(T, c)   == [T EXCEPT ![c][3] = @ + 1]
\* move the last torsion summand of cell c to the q-degree q2 (same homological degree)
MoveTors(T, c, q2) ==
    LET t    == T[c][4][Len(T[c][4])]
        T1   == [T EXCEPT ![c][4] = SubSeq(@, 1, Len(@) - 1)]
        K    == {m \in 1..Len(T1) : T1[m][1] = T1[c][1] /\ T1[m][2] = q2}
    IN  IF K = {} THEN Append(T1, <<T1[c][1], q2, 0, <<t>>>>)
        ELSE LET m == CHOOSE m \in K : TRUE IN [T1 EXCEPT ![m][4] = Append(@, t)]
QsOf(k) == IF k.red THEN {0, 2} ELSE {-1, 1, 3}
Rejected(k, T) == ~WellFormed(k.ring, T) \/ Objections(tabs, k, TabFn(T)) # {}
Sensitive == (n >= 1 /\ n < Len(KeyOrder) /\ NextKey # RefKey(NextKey.red)) =>
    LET k == NextKey  T == DefTable(k) IN
       /\ \A c \in 1..Len(T) : Rejected(k, RaiseRank(T, c))
       /\ k.ring \in ZRings => \A c \in 1..Len(T) : T[c][4] # <<>> =>
             \A q2 \in QsOf(k) \ {T[c][2]} : Rejected(k, MoveTors(T, c, q2))
\* the empty table is rejected whenever the true one is not empty
       /\ T # <<>> => Rejected(k, <<>>)
=============================================================================
