CONSTANTS
  N = 5
SPECIFICATION Spec
INVARIANTS Acyclic Sound Complete
CHECK_DEADLOCK FALSE
