CONSTANTS
  N = 5
  EdgePoolCodes = {12, 23, 34, 45, 15, 13, 24, 35}
SPECIFICATION Spec
INVARIANTS Acyclic Sound Complete
CHECK_DEADLOCK FALSE
