------------------------------- MODULE MC_TngM -------------------------------
(* Exhaustive: every tangle reachable from the empty one with labels 1..K by append_arc (arcs of 1..AL labels), connect with a
   small tangle, remove_at and from_resolved.  Invariants: the tangle stays well formed, sorted and fully glued; the Euler
   number is the number of arcs; appending two arcs in either order gives the same tangle; when an appended arc joins two
   components the second one sits behind the first (the index shift in the implementation is harmless there). *)
EXTENDS TngM, TLC
CONSTANTS K, AL
Lb == 1..K
RECURSIVE SortSetOfInts(_)
SortSetOfInts(S) == IF S = {} THEN <<>> ELSE <<MinOf(S)>> \o SortSetOfInts(S \ {MinOf(S)})
ArcSeqs == {s \in UNION {[1..n -> Lb] : n \in 1..AL} : NoRep(s)}
Arcs  == {Mk(s, FALSE) : s \in ArcSeqs}
Small == {<<a>> : a \in {x \in Arcs : Len(x.edges) = 2}} \cup {<<Mk(<<c>>, TRUE)>> : c \in Lb}
            \cup {<<a, Mk(<<c>>, TRUE)>> : a \in {x \in Arcs : Len(x.edges) = 2}, c \in Lb}
AAppend   == \E a \in Arcs : AppendArc(a, Appended(t, a))
AAppendPanics == AppendArcPanics(Mk(<<1>>, TRUE))
AConnect  == \E o \in Small : WellFormed(o) /\ ConnectT(o, ConnectedFrom(t, o, 1))
ARemove   == \E i \in 0..K : RemoveAt(i, t[i+1], DropIdx(t, i+1))
ARemovePanics == RemoveAtPanics(Len(t))
AResolved == t = <<>> /\ \E kind \in {"V", "H"}, e \in [1..4 -> Lb] : FromResolved(kind, e, Resolved(kind, e))
AConvert  == ConvertEdges(-1, K + 1, Converted(t, LAMBDA x : K + 1 - x))
AObserve  == \/ CompsIs(t) \/ EndPtsIs(SortSetOfInts(ArcEnds(t)))
             \/ \E i \in 0..K : CompIs(i, t[i+1]) \/ CompPanics(Len(t))
             \/ \E c \in Arcs : \E idx \in -1..K : IndexOfIs(c, idx # -1, idx)
             \/ \E idx \in -1..K : FindCircleIs(idx)
             \/ \E e \in Lb, idx \in -1..K : FindLabelIs(e, idx)
MNext == Empty \/ AAppend \/ AAppendPanics \/ AConnect \/ ARemove \/ ARemovePanics \/ AResolved \/ AConvert \/ AObserve
MSpec == Init /\ [][MNext]_t
Inv == /\ TangleOK /\ Merged(t)
       /\ \A a, b \in Arcs : (AppendOK(t, a) /\ AppendOK(t, b) /\ AppendOK(Appended(t, a), b) /\ AppendOK(Appended(t, b), a))
                             => SameTng(Appended(Appended(t, a), b), Appended(Appended(t, b), a))
       /\ \A a \in Arcs : AppendOK(t, a) =>
              /\ AllLabels(Appended(t, a)) = AllLabels(t) \cup Labels(a)
              /\ WellFormed(Appended(t, a)) /\ Merged(Appended(t, a))
              /\ LET I == Touching(t, a) IN Cardinality(I) <= 2
=============================================================================
