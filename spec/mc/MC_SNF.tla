------------------------------- MODULE MC_SNF -------------------------------
(* The result contract of SNF on all 2x2 and 2x3 integer matrices with entries -2..2: the diagonal
   defined through gcds of minors satisfies the contract, and it is the only diagonal that does. *)
EXTENDS SNF, TLC
CONSTANTS ColSet, XMax, YMax
VARIABLE k
V == -2..2
Inputs == UNION {{[m |-> 2, n |-> c, a |-> a] : a \in [1..2 -> [1..c -> V]]} : c \in ColSet}
Diag2(A, x, y) == Mat(A.m, A.n, LAMBDA i, j : IF i # j THEN 0 ELSE IF i = 1 THEN x ELSE y)
RefD(A) == LET g1 == MinorGcd(A, 1)  g2 == MinorGcd(A, 2) IN Diag2(A, g1, IF g1 = 0 THEN 0 ELSE g2 \div g1)
Chain(D) == <<IF D.a[1][1] = 0 THEN 0 ELSE D.a[2][2] \div D.a[1][1]>>
AllOK == \A A \in Inputs :
           /\ DiagOK(RI, RefD(A), Chain(RefD(A))) /\ MinorsOK(A, RefD(A))
           /\ RankOf(RI, RefD(A)) = RankByMinors(RI, A)
           /\ \A x \in 0..XMax, y \in 0..YMax : (DiagOK(RI, Diag2(A, x, y), Chain(Diag2(A, x, y))) /\ (x = 0 \/ y % x = 0) /\ MinorsOK(A, Diag2(A, x, y)))
                                            => Diag2(A, x, y) = RefD(A)
Init == k = 0
Next == FALSE /\ k' = k
Spec == Init /\ [][Next]_k
=============================================================================
