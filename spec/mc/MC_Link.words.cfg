CONSTANTS
  MaxStrands = 4
  MaxLen = 4
  MaxDepth = 0
  MaxCross = 5
SPECIFICATION MCSpec
INVARIANTS GhostWrithe GhostComps DiagramOK CompsThm OriThm ResThm PartialThm
VIEW View
CHECK_DEADLOCK FALSE
