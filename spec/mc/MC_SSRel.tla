------------------------------ MODULE MC_SSRel ------------------------------
(* Exhaustive model for C06 on a small family of knot diagrams (the knots with at most five crossings given by
   PD codes and as braid closures, kinked unknots), every diagram one isotopy move, mirror, reversal or crossing
   change away (crossing change at EVERY crossing, in the three encodings: code rotated, type toggled, letter of
   the braid word inverted).
     - the crossing-change operator against Link.tla: the result is a valid diagram of a knot, exactly the sign
       of the changed crossing flips, the rotated code and the toggled type are the same diagram (same state-sum
       polynomial), the ghost writhe drops by twice the sign;
     - the relations of SSRelations.tla against the classical values (knots identified by Jones.tla's polynomial):
       constant along isotopies and reversal, negated by mirror, the window ss(K-) <= ss(K+) <= ss(K-) + 2 at
       every crossing of every diagram (this pins the sign conventions of the whole chain);
     - LeeCanon.tla on the definition (KhSmall.tla cube with h = 1, 2): the canonical cycles X / X - h on the
       two-coloured Seifert circles are cycles of degree 0 with non-torsion classes; the (1,0)- and (0,1)-theories
       have rank 2^components and no torsion for (1,0) over Z. *)
EXTENDS SSRelations

CONSTANTS MaxDepth, MaxCross, SeedMax, DefN      \* SeedMax: roots with at most this many crossings; DefN: cube-of-resolutions invariants for diagrams with at most DefN crossings

VARIABLES depth, lastx
mcvars == <<dg, wr, nc, out, res, jp, bw, ssv, depth, lastx>>

AllPDSeeds  == {<<<<0, 0, 1, 1>>>>, <<<<0, 1, 1, 0>>>>, K31, K41, K51, K52}
AllWordSeeds == {<<2, <<1>>>>, <<2, <<1, 1, 1>>>>, <<2, <<-1, -1, -1>>>>, <<3, <<1, -2, 1, -2>>>>, <<3, <<1, 2>>>>, <<2, <<1, 1, 1, 1, 1>>>>}
PDSeeds   == {pd \in AllPDSeeds : Len(pd) <= SeedMax}
WordSeeds == {r \in AllWordSeeds : Len(r[2]) <= SeedMax}

ASSUME LitSanity ==
    /\ Cardinality(LitTable) = 8                     \* 4_1 is amphichiral: its two entries coincide; all others are distinct
    /\ \A x, y \in LitTable : x[1] = y[1] => x[2] = y[2]
    /\ \A pd \in AllPDSeeds : Valid(FromPD(pd)) /\ Cardinality(Components(FromPD(pd))) = 1 /\ LitKnown(FromPD(pd))
    /\ \A r \in AllWordSeeds : CycleCount(r[1], r[2]) = 1 /\ LitKnown(Closure(r[1], r[2]))
    /\ LitSS(Closure(2, <<1, 1, 1>>)) = 2 /\ LitSS(Closure(2, <<-1, -1, -1>>)) = -2 /\ LitSS(Closure(2, <<1, 1, 1, 1, 1>>)) = 4
    /\ LitSS(Closure(3, <<1, -2, 1, -2>>)) = 0 /\ LitSS(Closure(3, <<1, 2>>)) = 0
\* Lee / Bar-Natan rank on links (the machine below only visits knots)
LeeRows(D, h, t) == LET R == SetToSeq(KhTotal(D, h, t)) IN R
ASSUME LeeOnLinks ==
    \A D \in {FromPD(<<<<4, 1, 3, 2>>, <<2, 3, 1, 4>>>>), Closure(2, <<1, -1>>), Closure(2, <<1, 1, 1, 1>>), Closure(3, <<1, 1, 2, 2>>), Closure(3, <<1, -1, 2>>),
              FromPD(<<<<0, 0, 1, 1>>, <<2, 3, 3, 2>>>>)} :
        /\ LeeRankOK(LeeRows(D, 1, 0), Cardinality(Components(D)))
        /\ TotalRank(KhTotal(D, 0, 1)) = 2 ^ Cardinality(Components(D))
\* the contract rejects what it should: a boundary, a non-cycle, a wrong degree
ASSUME ContractRejects ==
    LET d0 == <<<<1, -1>>>>  dm1 == <<<<2>>, <<2>>>> IN
    /\ CanonOK(1, TRUE, 2, <<<<1, 1>>>>, <<<<0>>>>, <<<<0>>, <<0>>>>, d0)
    /\ ~CanonOK(1, TRUE, 2, <<<<1, 1>>>>, <<<<0>>>>, dm1, d0)             \* 2 z is a boundary: torsion class
    /\ CanonOK(0, TRUE, 2, <<<<1, 1>>>>, <<<<0>>>>, dm1, d0)              \* ... which is allowed for h = 0
    /\ ~CanonOK(1, TRUE, 2, <<<<1, 0>>>>, <<<<0>>>>, <<<<0>>, <<0>>>>, d0) \* not a cycle
    /\ ~CanonOK(1, TRUE, 2, <<<<1, 1>>>>, <<<<0, 1>>>>, <<<<0>>, <<0>>>>, d0) \* a generator of degree 1
    /\ ~CanonOK(1, FALSE, 2, <<<<1, 1>>>>, <<<<0>>>>, <<<<0>>, <<0>>>>, d0)   \* unreduced: two cycles
    /\ ~CanonOK(1, TRUE, 2, <<<<0, 0>>>>, <<<<>>>>, <<<<0>>, <<0>>>>, d0)     \* the zero chain is a torsion class
    /\ ~LeeRankOK(<<<<0, 2, <<>>>>, <<2, 1, <<>>>>>>, 1) /\ ~LeeRankOK(<<<<0, 2, <<2>>>>>>, 1) /\ LeeRankOK(<<<<-2, 2, <<>>>>, <<0, 2, <<>>>>>>, 2)

Depth(d) == depth' = d
Lit1(D) == [c \in {"2"} |-> LitSS(D)]
MCInit == SInit /\ depth = 0 /\ lastx = <<0, 0>>

Start ==
    /\ depth = 0 /\ dg = <<>>
    /\ \/ \E pd \in PDSeeds : MLoad(pd) /\ ssv' = Lit1(FromPD(pd))
       \/ \E r \in WordSeeds : MClosure(r[1], r[2], ClosureCode(r[1], r[2])) /\ ssv' = Lit1(Closure(r[1], r[2]))
    /\ Depth(1) /\ UNCHANGED <<jp, lastx>>

CanMove == depth >= 1 /\ depth <= MaxDepth
Letters(n) == {g \in -(n-1)..(n-1) : g # 0}
WordMoves(n, w) ==
       {[kind |-> "conj"]}
  \cup {[kind |-> "stab", s |-> s] : s \in {1, -1}}
  \cup {[kind |-> "pair", k |-> k, g |-> g] : k \in 0..Len(w), g \in Letters(n)}
  \cup {[kind |-> "comm", k |-> k] : k \in {k \in 1..Len(w) : CanCommute(w, k)}}
  \cup {[kind |-> "braid", k |-> k] : k \in {k \in 1..Len(w) : CanBraidRel(w, k)}}
ApplyMove(mv, n, w) ==
    CASE mv.kind = "conj"  -> <<n, Conj(w)>>
      [] mv.kind = "stab"  -> <<n + 1, Stabilise(n, w, mv.s)>>
      [] mv.kind = "pair"  -> <<n, InsertPair(w, mv.k, mv.g)>>
      [] mv.kind = "comm"  -> <<n, Commute(w, mv.k)>>
      [] mv.kind = "braid" -> <<n, BraidRel(w, mv.k)>>
Keep == ssv' = ssv /\ UNCHANGED <<jp, lastx>> /\ Depth(depth + 1)
MvWord ==
    /\ CanMove /\ bw[1] >= 2
    /\ \E mv \in WordMoves(bw[1], bw[2]) : LET r == ApplyMove(mv, bw[1], bw[2]) IN
          /\ Len(r[2]) <= MaxCross
          /\ MWord(mv, r[1], r[2], ClosureCode(r[1], r[2]))
    /\ Keep
MvMirror   == CanMove /\ MMirror /\ ssv' = [c \in DOMAIN ssv |-> -ssv[c]] /\ UNCHANGED <<jp, lastx>> /\ Depth(depth + 1)
MvReverse  == CanMove /\ MReverse /\ Keep
MvRenumber == CanMove /\ MRenumber([e \in Edges(dg) |-> MaxEdge(dg) + 7 - e]) /\ Keep
MvReorder  == CanMove /\ Len(dg) > 1 /\ MReorder([i \in 1..Len(dg) |-> (i % Len(dg)) + 1]) /\ Keep
MvKink     == CanMove /\ Len(dg) < MaxCross /\ (\E x \in Edges(dg), k \in KinkKinds : MKink(x, k)) /\ Keep
MvR2       == /\ CanMove /\ Len(dg) + 2 <= MaxCross
              /\ \E x \in Edges(dg), y \in Edges(dg), sx \in {"L", "R"}, sy \in {"L", "R"}, over \in BOOLEAN : MR2(x, sx, y, sy, over)
              /\ Keep
\* crossing changes: the new value is the classical one of the new knot; the window is the invariant WindowOK
XDone(xs) == ssv' = Lit1(dg') /\ lastx' = <<xs, ssv["2"]>> /\ UNCHANGED jp /\ Depth(depth + 1)
MvXChange  == CanMove /\ \E k \in 1..Len(dg) : MXChange(k) /\ XDone(SignAt(dg, k))
MvXToggle  == CanMove /\ \E k \in 1..Len(dg) : MXToggle(k) /\ XDone(SignAt(dg, k))
MvXLetter  == CanMove /\ bw[1] >= 2 /\ \E k \in 1..Len(bw[2]) : MXLetter(k, ClosureCode(bw[1], [bw[2] EXCEPT ![k] = -bw[2][k]])) /\ XDone(SgnI(bw[2][k]))

MCNext == Start \/ MvWord \/ MvMirror \/ MvReverse \/ MvRenumber \/ MvReorder \/ MvKink \/ MvR2 \/ MvXChange \/ MvXToggle \/ MvXLetter
MCSpec == MCInit /\ [][MCNext]_mcvars

\* ---------------------------------------------------------------- invariants
Knot      == depth >= 1 => nc = 1 /\ Cardinality(Components(dg)) = 1
LitGhost  == depth >= 1 => LitKnown(dg) /\ ssv["2"] = LitSS(dg)
WindowOK  == lastx[1] # 0 => Window(lastx[1], lastx[2], ssv["2"])
\* the crossing-change operator (checked at every crossing of every diagram reached)
FlipAt(sg, k) == [sg EXCEPT ![k] = -sg[k]]
XChangeThm == (depth >= 1 /\ AllCrossings(dg)) =>
    \A k \in 1..Len(dg) : \A H \in AdmHeadSets(dg) :
        LET C == ChangeCrossing(dg, H, k)   Tg == ToggleCrossing(dg, k) IN
        /\ WellFormed(C) /\ IncidenceOK(C) /\ Oriented(C) /\ Planar(C)
        /\ Components(C) = Components(dg)
        /\ AdmSigns(C) = {FlipAt(sg, k) : sg \in AdmSigns(dg)}
        /\ AdmSigns(Tg) = AdmSigns(C)
        /\ PEq(Jones(C), Jones(Tg))
        /\ \A H2 \in AdmHeadSets(C) : ChangeCrossing(C, H2, k) = dg          \* changing twice gives the code back
\* LeeCanon on the definition
DefThm == (depth >= 1 /\ Len(dg) <= DefN /\ AllCrossings(dg)) =>
    /\ \A h \in {1, 2} : \A red \in BOOLEAN : SpecCanonOK(dg, h, red)
    /\ LeeRankOK(LeeRows(dg, 1, 0), 1)
    /\ TotalRank(KhTotal(dg, 0, 1)) = 2

View == <<dg, bw, ssv, depth, lastx>>
=============================================================================
