---------------------------- MODULE MC_ChainRed ----------------------------
(* Design-level model of chain reduction by one unit pivot at a time (the elementary step every pivot strategy
   is composed of), with the explicit Gaussian-elimination formulas for the new differentials and transfer maps.
   All cochain complexes Z^2 -> Z^2 -> Z^2 with entries -1..1 and d1 d0 = 0; every sequence of pivot choices.
   Invariants: complex, chain maps, F B = I, homology unchanged - i.e. every reachable state is an admissible
   post-state of ChainRed!Reduce. *)
EXTENDS ChainRed, TLC
V == {-1, 0, 1}
M22 == {[m |-> 2, n |-> 2, a |-> a] : a \in [1..2 -> [1..2 -> V]]}
DelRow(A, p) == Mat(A.m - 1, A.n, LAMBDA i, j : A.a[IF i < p THEN i ELSE i + 1][j])
DelCol(A, q) == Mat(A.m, A.n - 1, LAMBDA i, j : A.a[i][IF j < q THEN j ELSE j + 1])
Up(k, p) == IF k < p THEN k ELSE k + 1
MInit == /\ R = RI /\ lo = 0 /\ hi = 1
         /\ \E x \in M22, y \in M22 : MIsZero(RI, MMul(RI, y, x)) /\ d0 = [i \in 0..1 |-> IF i = 0 THEN x ELSE y]
         /\ mat = d0 /\ F = [i \in 0..2 |-> MId(RI, 2)] /\ B = [i \in 0..2 |-> MId(RI, 2)]
         /\ v0 = [i \in 0..2 |-> <<>>] /\ v = [i \in 0..2 |-> <<>>]
\* eliminate the unit entry (p, q) of mat[i]
Pivot(i, p, q) ==
    LET a == mat[i]  u == a.a[p][q]        \* u = +-1, so 1/u = u
        S == Mat(a.m - 1, a.n - 1, LAMBDA r, c : a.a[Up(r, p)][Up(c, q)] - a.a[Up(r, p)][q] * u * a.a[p][Up(c, q)])
        Bsrc == Mat(a.n, a.n - 1, LAMBDA r, c : IF r = q THEN -(u * a.a[p][Up(c, q)]) ELSE IF r = Up(c, q) THEN 1 ELSE 0)
        Ftgt == Mat(a.m - 1, a.m, LAMBDA r, c : IF c = p THEN -(a.a[Up(r, p)][q] * u) ELSE IF c = Up(r, p) THEN 1 ELSE 0)
    IN /\ u \in {1, -1}
       /\ mat' = [k \in 0..1 |-> IF k = i THEN S ELSE IF k = i - 1 THEN DelRow(mat[k], q) ELSE IF k = i + 1 THEN DelCol(mat[k], p) ELSE mat[k]]
       /\ F' = [k \in 0..2 |-> IF k = i THEN DelRow(F[k], q) ELSE IF k = i + 1 THEN MMul(RI, Ftgt, F[k]) ELSE F[k]]
       /\ B' = [k \in 0..2 |-> IF k = i THEN MMul(RI, B[k], Bsrc) ELSE IF k = i + 1 THEN DelCol(B[k], p) ELSE B[k]]
       /\ UNCHANGED <<R, lo, hi, d0, v0, v>>
MNext == \E i \in 0..1 : \E p \in 1..mat[i].m, q \in 1..mat[i].n : Pivot(i, p, q)
MSpec == MInit /\ [][MNext]_cvars
Inv == Complex(mat) /\ MapsOK(mat, F, B) /\ SameHomology(mat)
=============================================================================
