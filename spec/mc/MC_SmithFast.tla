----------------------------- MODULE MC_SmithFast ----------------------------
(* SmithFast.tla against the reference operators of LinAlg.tla (themselves checked against the gcd-of-minors
   definition in MC_LinAlg): on every 2x2 matrix with entries -3..3, every 2x3 and 3x2 matrix with entries
   -2..2 and every 3x3 matrix with entries -1..1 the divisibility chain of the diagonalisation equals the
   invariant factors and the ranks over F_2, F_3 read off the diagonal equal the ranks by elimination mod p;
   on products P D Q with P, Q unimodular (4x4, 5x4) the known diagonal comes back. *)
EXTENDS SmithFast, TLC
VARIABLE k
Ms(m, n, V) == [1..m -> [1..n -> V]]
Agree(A) == /\ FastInvFactors(A) = InvFactors(A)
            /\ \A p \in {2, 3} : FastRankP(A, p) = RankP(A, p)
            /\ Len(DiagOf(A)) = RankZ(A)
SmallOK == /\ \A A \in Ms(2, 2, -3..3) : Agree(A)
           /\ \A A \in Ms(2, 3, -2..2) : Agree(A)
           /\ \A A \in Ms(3, 2, -2..2) : Agree(A)
           /\ \A A \in Ms(3, 3, -1..1) : Agree(A)
\* zero-dimensional shapes
ZeroDimOK == /\ DiagOf(<<>>) = <<>>
             /\ DiagOf(<<<<>>, <<>>>>) = <<>>
             /\ DiagOf(<<<<0, 0>>, <<0, 0>>>>) = <<>>
             /\ FastInvFactors(<<<<4, 6>>>>) = <<2>>
             /\ FastInvFactors(<<<<2, 0>>, <<0, 3>>>>) = <<1, 6>>
             /\ FastInvFactors(<<<<2, 0, 0>>, <<0, 4, 0>>, <<0, 0, 6>>>>) = <<2, 2, 12>>
             /\ InvChain(<<4, 6, 9>>) = <<1, 6, 36>>
\* unimodular 4x4 matrices (products of elementary ones) and diagonals with known invariant factors
U1 == <<<<1, 2, 0, -1>>, <<0, 1, 3, 0>>, <<0, 0, 1, 2>>, <<0, 0, 0, 1>>>>
U2 == <<<<1, 0, 0, 0>>, <<-2, 1, 0, 0>>, <<1, 3, 1, 0>>, <<0, -1, 2, 1>>>>
U3 == <<<<0, 1, 0, 0>>, <<1, 1, 0, 0>>, <<0, 2, 0, 1>>, <<3, 0, 1, 1>>>>
V5 == <<<<1, 1, 0, 0, 2>>, <<0, 1, 0, 0, 0>>, <<0, 3, 1, 0, 0>>, <<1, 0, 0, 1, 0>>, <<0, 0, -1, 0, 1>>>>
Dg(m, n, ds) == LMat(m, n, LAMBDA i, j : IF i = j /\ i <= Len(ds) THEN ds[i] ELSE 0)
Us == {U1, U2, U3, LMul(U1, U2, 4), LMul(U3, U1, 4)}
Chains == {<<1, 2, 6>>, <<2, 2, 4>>, <<1, 1, 3, 9>>, <<5>>, <<>>, <<3, 6, 12, 24>>, <<1, 1, 1, 1>>}
ProductsOK == \A P \in Us, Q \in Us, ds \in Chains :
                 LET A == LMul(LMul(P, Dg(4, 4, ds), 4), Q, 4)
                     B == LMul(LMul(V5, Dg(5, 4, ds), 4), Q, 4)
                 IN  /\ FastInvFactors(A) = ds /\ FastInvFactors(B) = ds
                     /\ \A p \in {2, 3, 5} : FastRankP(A, p) = Cardinality({i \in 1..Len(ds) : ds[i] % p # 0})
Init == k = 0
Next == FALSE /\ k' = k
Spec == Init /\ [][Next]_k
AllOK == SmallOK /\ ZeroDimOK /\ ProductsOK
=============================================================================
