CONSTANTS
  Rows = {1, 2, 3}
  Cols = {1, 2, 3}
  AllCand = TRUE
SPECIFICATION Spec
INVARIANTS DistinctRows DistinctCols CondOK SnapshotOK Acyclic NoDeadlock ResultOK
PROPERTY Terminates
CHECK_DEADLOCK FALSE
