------------------------------ MODULE MC_ChainCx -----------------------------
(***************************************************************************)
(* Exhaustive model for C05.  For every diagram of a small family (closures *)
(* of all braid words of length <= MaxLen on <= MaxStrands strands) the     *)
(* Khovanov cube of resolutions is built FROM THE DEFINITION over the       *)
(* Frobenius algebra A = R[X]/(X^2 - hX - t),                               *)
(*     m(1,1) = 1, m(1,X) = m(X,1) = X, m(X,X) = hX + t,                     *)
(*     D(1) = X(x)1 + 1(x)X - h 1(x)1,  D(X) = X(x)X + t 1(x)1,             *)
(* on the circles of Link.tla's resolutions, with sign (-1)^(number of 1s    *)
(* before the changed crossing), bidegree (|s| - n-,  deg(labels) + |s| +    *)
(* n+ - 2n- (+1 reduced)), deg 1 = +1, deg X = -1; the reduced complex is    *)
(* the subcomplex in which the circle through the base edge carries X        *)
(* (t = 0).  The parameters run over every ring of the property:             *)
(* (H,T), (H,0), (0,T) symbolic in Z[H,T], Z[H], Z[T], Q[H], F2[H], and       *)
(* numbers in Z, Q, F2, F3.                                                  *)
(*   Accepts    every such complex is a Cx step of ChainCx.tla: shape,       *)
(*              degree, d*d = 0, homogeneity with deg H = -2, deg T = -4,    *)
(*              and the numeric cubes have the homology of every symbolic    *)
(*              cube specialised at their point.  So the contract the        *)
(*              library is held to is a theorem about the definition here.   *)
(*   Sensitive  cubes built with a broken rule (no signs; h and t exchanged  *)
(*              in m and D) are not Cx steps.                                *)
(***************************************************************************)
EXTENDS ChainCx, Braid

CONSTANTS MaxStrands, MaxLen

VARIABLES n            \* number of jobs done for the current diagram (-1: no diagram yet)
mvars == <<lk, polys, dg, wr, nc, out, res, n>>

Letters(k) == {g \in -(k-1)..(k-1) : g # 0}
Words == UNION {UNION {{w \in [1..k -> Letters(s)] : NoFreeLoop(s, w)} : k \in 1..MaxLen} : s \in 2..MaxStrands}
StrandsOf(w) == MaxOfSet({AbsI(w[k]) : k \in 1..Len(w)}) + 1

\* ---------------------------------------------------------------- ring elements for the parameters
VarElem(tag, which) ==          \* the polynomial H (which = 1) or T (which = 2)
    LET R == RingOf(tag) IN
    IF R.nv = 2 THEN [e \in {IF which = 1 THEN <<1, 0>> ELSE <<0, 1>>} |-> ROne(R.b)]
    ELSE [e \in {1} |-> ROne(R.b)]
Param(tag, p, which) ==
    IF tag \in PolyTags THEN (IF p = "0" THEN RZero(RingOf(tag)) ELSE VarElem(tag, which))
    ELSE RFromInt(RingOf(tag), p)

\* ---------------------------------------------------------------- the cube of resolutions
\* Rule: "ok" the definition; "nosign" all edge signs +1; "swap" h and t exchanged in m(X,X) and D
CircSeq(D, s) == SetToSortSeq(CirclesOfState(D, s), LAMBDA a, b : MinOfSet(a) < MinOfSet(b))
Weight1(s) == SumSeq(s)
BaseEdge(D) == MinOfSet(Edges(D))
\* generators at vertex s: labelings of the circles by 0 (= 1) and 1 (= X); reduced: the base circle carries X
GensAt(D, s, red) ==
    LET cs == CircSeq(D, s) IN
    {<<s, lab>> : lab \in {lab \in [1..Len(cs) -> {0, 1}] : red => \A c \in 1..Len(cs) : BaseEdge(D) \in cs[c] => lab[c] = 1}}
LabDeg(lab) == SumSeq([c \in 1..Len(lab) |-> IF lab[c] = 1 THEN -1 ELSE 1])

\* the terms of d on generator <<s, lab>> along the edge that switches crossing c: set of <<coefficient, <<s2, lab2>>>>
EdgeTerms(R, hh, tt, D, s, lab, c, rule) ==
    LET s2   == [s EXCEPT ![c] = 1]
        cs   == CircSeq(D, s)
        cs2  == CircSeq(D, s2)
        old  == {i \in 1..Len(cs) : \A j \in 1..Len(cs2) : cs2[j] # cs[i]}
        new  == {j \in 1..Len(cs2) : \A i \in 1..Len(cs) : cs[i] # cs2[j]}
        sgn  == IF rule = "nosign" \/ Cardinality({j \in 1..(c - 1) : s[j] = 1}) % 2 = 0 THEN ROne(R) ELSE RNeg(R, ROne(R))
        h1   == IF rule = "swap" THEN tt ELSE hh
        t1   == IF rule = "swap" THEN hh ELSE tt
        \* labeling of s2 that agrees with lab on the untouched circles and takes nl on the new ones
        lab2(nl) == [j \in 1..Len(cs2) |-> IF j \in new THEN nl[j] ELSE lab[CHOOSE i \in 1..Len(cs) : cs[i] = cs2[j]]]
        terms == IF Cardinality(old) = 2      \* merge
                 THEN LET a == lab[MinOfSet(old)]  b == lab[MaxOfSet(old)]  j == CHOOSE j \in new : TRUE
                      IN  IF a = 0 /\ b = 0 THEN {<<ROne(R), [x \in {j} |-> 0]>>}
                          ELSE IF a + b = 1 THEN {<<ROne(R), [x \in {j} |-> 1]>>}
                          ELSE {<<h1, [x \in {j} |-> 1]>>, <<t1, [x \in {j} |-> 0]>>}
                 ELSE LET a == lab[CHOOSE i \in old : TRUE]  j1 == MinOfSet(new)  j2 == MaxOfSet(new)        \* split
                          nl(u, v) == [x \in {j1, j2} |-> IF x = j1 THEN u ELSE v]
                      IN  IF a = 0 THEN {<<ROne(R), nl(1, 0)>>, <<ROne(R), nl(0, 1)>>, <<RNeg(R, h1), nl(0, 0)>>}
                          ELSE {<<ROne(R), nl(1, 1)>>, <<t1, nl(0, 0)>>}
    IN  {<<RMul(R, sgn, tm[1]), <<s2, lab2(tm[2])>>>> : tm \in {tm \in terms : ~RIsZero(R, tm[1])}}

Cube(tag, hp, tp, D, red, rule) ==
    LET R    == RingOf(tag)
        hh   == Param(tag, hp, 1)
        tt   == Param(tag, tp, 2)
        nx   == Len(D)
        pn   == CHOOSE pn \in PosNegSet(D) : TRUE
        i0   == -pn[2]
        q0   == pn[1] - 2 * pn[2] + (IF red THEN 1 ELSE 0)
    IN  Let(ForceS([k \in 1..(nx + 1) |-> SetToSeq(UNION {GensAt(D, s, red) : s \in {s \in States(nx) : Weight1(s) = k - 1}})]), LAMBDA G :
        \* G[k]: the generators of homological degree i0 + k - 1
        Let(ForceS([k \in 1..(nx + 1) |->
               IF k = nx + 1 THEN [m |-> 0, n |-> Len(G[k]), e |-> <<>>]
               ELSE [m |-> Len(G[k + 1]), n |-> Len(G[k]),
                     e |-> SetToSeq(UNION {UNION {
                              {<<CHOOSE y \in 1..Len(G[k + 1]) : G[k + 1][y] = tm[2], x, tm[1]>> :
                                   tm \in EdgeTerms(R, hh, tt, D, G[k][x][1], G[k][x][2], c, rule)} :
                              c \in {c \in 1..nx : G[k][x][1][c] = 0}} : x \in 1..Len(G[k])})]]), LAMBDA dd :
        [i0 |-> i0, ddeg |-> 1, sup |-> [k \in 1..(nx + 1) |-> i0 + k - 1],
         ranks |-> [k \in 1..(nx + 1) |-> Len(G[k])],
         g |-> ForceS([k \in 1..(nx + 1) |-> ForceS([x \in 1..Len(G[k]) |-> <<i0 + k - 1, LabDeg(G[k][x][2]) + (k - 1) + q0>>])]),
         d |-> dd,
         dzp |-> [k \in 1..(nx + 1) |-> FALSE],
         dz |-> [k \in 1..(nx + 1) |-> <<>>]]))

\* ---------------------------------------------------------------- the jobs of one diagram
Job(tag, red, h, t) == [tag |-> tag, red |-> red, h |-> h, t |-> t]
Jobs ==
    <<Job("ZHT", FALSE, "H", "T"), Job("ZT", FALSE, "0", "T"), Job("ZHT", FALSE, "H", "0"), Job("ZH", FALSE, "H", "0"),
      Job("QH", FALSE, "H", "0"), Job("F2H", FALSE, "H", "0"), Job("ZH", FALSE, "0", "0"),
      Job("Z", FALSE, 0, 0), Job("Q", FALSE, 0, 0), Job("F2", FALSE, 0, 0), Job("F3", FALSE, 0, 0),
      Job("Z", FALSE, 1, 0), Job("Z", FALSE, 0, 1), Job("Z", FALSE, 2, 3), Job("Z", FALSE, -1, 2), Job("Z", FALSE, 2, 0),
      Job("F2", FALSE, 1, 1), Job("F2", FALSE, 1, 0), Job("F3", FALSE, 1, 2), Job("Q", FALSE, 2, 3),
      Job("ZHT", TRUE, "H", "0"), Job("ZH", TRUE, "H", "0"), Job("QH", TRUE, "H", "0"), Job("F2H", TRUE, "H", "0"),
      Job("Z", TRUE, 0, 0), Job("Z", TRUE, 2, 0), Job("Z", TRUE, -1, 0), Job("F2", TRUE, 1, 0), Job("F3", TRUE, 2, 0), Job("Q", TRUE, 2, 0)>>

MCInit == CInit /\ LinkInit /\ n = -1
Start  == /\ n = -1
          /\ \E w \in Words : dg' = Closure(StrandsOf(w), w)
          /\ UNCHANGED <<wr, nc, out, res>> /\ NewLink("cube") /\ n' = 0
DoJob  == /\ n >= 0 /\ n < Len(Jobs)
          /\ LET j == Jobs[n + 1] IN \E C \in {Cube(j.tag, j.h, j.t, dg, j.red, "ok")} : Cx(j.tag, j.red, j.h, j.t, C)
          /\ n' = n + 1 /\ UNCHANGED <<dg, wr, nc, out, res>>
MCNext == Start \/ DoJob
MCSpec == MCInit /\ [][MCNext]_mvars

\* ---------------------------------------------------------------- invariants
FailingCube(j, rule) == Failing(polys, j.tag, j.red, j.h, j.t, Cube(j.tag, j.h, j.t, dg, j.red, rule))
Accepts == (n >= 0 /\ n < Len(Jobs)) => (ParamsOK(Jobs[n + 1].tag, Jobs[n + 1].h, Jobs[n + 1].t) /\ FailingCube(Jobs[n + 1], "ok") = {})
\* without the signs some square does not anticommute (characteristic # 2, at least two crossings on one component
\* unreduced: every square has a non-zero composite, e.g. m(D(1)) = 2X - h; in the reduced complex at h = 0 the
\* composite m(D(X)) = hX vanishes, so reduced jobs are left out)
NoSignCaught == (n >= 0 /\ n < Len(Jobs) /\ Len(dg) >= 2 /\ ~Jobs[n + 1].red /\ Jobs[n + 1].tag \in {"Z", "Q", "F3", "ZH", "ZT", "ZHT", "QH"}) =>
                   <<"dsquare", "">> \in FailingCube(Jobs[n + 1], "nosign")
\* h and t exchanged: X^2 = tX + h is inhomogeneous for deg H = -2, deg T = -4 as soon as a merge of two X's or a
\* split occurs (every diagram with a crossing has one) and both parameters are symbolic
SwapCaught == (n >= 0 /\ n < Len(Jobs) /\ Len(dg) >= 1 /\ Jobs[n + 1].tag = "ZHT" /\ Jobs[n + 1].t = "T") =>
                   <<"homogeneous", "">> \in FailingCube(Jobs[n + 1], "swap")
=============================================================================
