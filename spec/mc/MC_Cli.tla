------------------------------- MODULE MC_Cli -------------------------------
(* Exhaustive model of the ykh decision table: the whole option product
   {kh,ckh} x {Z,Q,F2,F3} x CValues x {-m} x {-r} x input classes, every admissible
   observable at every point, plus theorems of the table itself and the round trip
   of the cell grammar on all small groups. *)
EXTENDS Cli, TLC

CONSTANT Wide     \* FALSE: pairs over the reduced token set Toks2 (quick); TRUE: pairs over all of Toks (thorough)

\* --- the coefficient values of the model: all token sequences of length <= 2 over Toks,
\*     and all of length 3 over Toks3
Ints  == {-3, -2, -1, 0, 1, 2, 3, 6}
Toks  == {IntTok(n) : n \in Ints} \cup {IntTokNC(0)}
         \cup {RatTok(1, 2), RatTok(0, 1), RatTok(1, 0)}
         \cup {VarTok("H"), VarTok("T"), JunkTok}
Toks2 == {IntTok(n) : n \in {-2, 0, 2, 3, 6}} \cup {IntTokNC(0), RatTok(1, 2), RatTok(1, 0), VarTok("H"), VarTok("T"), JunkTok}
Toks3 == {IntTok(0), VarTok("H"), VarTok("T"), JunkTok}
PairToks == IF Wide THEN Toks ELSE Toks2
CValues == {<<a>> : a \in Toks} \cup {<<a, b>> : a, b \in PairToks} \cup {<<a, b, c>> : a, b, c \in Toks3}

Points == {Point(cmd, ct, cv, m, r, ic) :
              cmd \in Cmds, ct \in CTypes, cv \in CValues, m \in BOOLEAN, r \in BOOLEAN, ic \in InputClasses}

\* one invocation per behaviour (the binary keeps no state between runs)
DoErr      == inv = NoInv /\ \E p \in Points, ob \in Observables : InvokeErr(p, ob)
DoTable    == inv = NoInv /\ \E p \in Points, ob \in Observables : InvokeTable(p, ob)
DoInternal == inv = NoInv /\ \E p \in Points, ob \in Observables : InvokeInternal(p, ob)
Next == DoErr \/ DoTable \/ DoInternal
Spec == Init /\ [][Next]_vars

OutcomeTotal == inv # NoInv => OutcomeAt(inv).class \in Classes /\ OutcomeAt(inv).why \in Whys
                                /\ (OutcomeAt(inv).class = "Error" <=> OutcomeAt(inv).why # "-")

\* ---------------------------------------------------------------- theorems of the decision table
At(cmd, ct, cv, m, r, ic) == Outcome(cmd, ct, cv, m, r, ic).class
OK(c) == c # "Error"

\* -m never changes the kind of result
MirrorIrrelevant == \A p \in Points : At(p.cmd, p.ctype, p.cv, TRUE, p.reduced, p.ic) = At(p.cmd, p.ctype, p.cv, FALSE, p.reduced, p.ic)
\* whatever kh accepts, ckh accepts; whatever is accepted with -r is accepted without
KhWithinCkh      == \A p \in Points : p.cmd = "kh" /\ OK(OutcomeAt(p).class) => OK(At("ckh", p.ctype, p.cv, p.mirror, p.reduced, p.ic))
ReducedWithin    == \A p \in Points : p.reduced /\ OK(OutcomeAt(p).class) => OutcomeAt(p).class = At(p.cmd, p.ctype, p.cv, p.mirror, FALSE, p.ic)
\* an input that yields no diagram is an error whatever the options are; so are three or more comma-separated parts
BadInputIsError  == \A p \in Points : (p.ic \in Unloadable \/ Len(p.cv) >= 3) => OutcomeAt(p).class = "Error"
\* ckh prints the generator table or fails; kh prints a homology table or fails
KindByCmd        == \A p \in Points : /\ p.cmd = "ckh" => OutcomeAt(p).class \in {"GenTable", "Error"}
                                      /\ p.cmd = "kh"  => OutcomeAt(p).class \in {"Table2D", "Seq1D", "Error"}
\* kh never works over Z[H], Z[T] or in two variables
KhNeedsPID       == \A p \in Points : p.cmd = "kh" /\ ((HasVar(p.cv, "H") /\ HasVar(p.cv, "T")) \/ (p.ctype = "Z" /\ PolyVars(p.cv) # "none"))
                                         => OutcomeAt(p).class = "Error"
\* h = t = 0 (in the ring!) is always the bigraded table
ZeroIsBigraded   == \A ct \in CTypes, ic \in Loadable, r \in BOOLEAN : ic # "empty" =>
                       /\ At("kh", ct, <<IntTok(0)>>, FALSE, r, ic) = "Table2D"
                       /\ At("kh", ct, <<IntTok(0), IntTok(0)>>, FALSE, r, ic) = "Table2D"
CharMatters      == /\ At("kh", "F2", <<IntTok(2)>>, FALSE, FALSE, "knot") = "Table2D"
                    /\ At("kh", "F3", <<IntTok(2)>>, FALSE, FALSE, "knot") = "Seq1D"
                    /\ At("kh", "F3", <<IntTok(0), IntTok(3)>>, FALSE, TRUE, "knot") = "Table2D"
                    /\ At("kh", "Z",  <<IntTok(0), IntTok(3)>>, FALSE, TRUE, "knot") = "Error"
                    /\ At("kh", "Z",  <<IntTok(0), IntTok(3)>>, FALSE, FALSE, "knot") = "Seq1D"
                    /\ At("kh", "F2", <<IntTok(-2)>>, FALSE, FALSE, "knot") = "Table2D"
\* the examples of the README
Readme           == /\ At("kh", "Z", <<IntTok(0)>>, FALSE, FALSE, "knot") = "Table2D"
                    /\ At("kh", "Z", <<IntTok(0)>>, FALSE, FALSE, "pd") = "Table2D"
                    /\ At("kh", "Q", <<VarTok("H")>>, FALSE, FALSE, "knot") = "Table2D"
                    /\ At("ckh", "Z", <<VarTok("H"), VarTok("T")>>, FALSE, FALSE, "knot") = "GenTable"
                    /\ At("kh", "Z", <<VarTok("H"), VarTok("T")>>, FALSE, FALSE, "knot") = "Error"
                    /\ At("kh", "Q", <<IntTok(0), VarTok("T")>>, FALSE, FALSE, "knot") = "Table2D"
                    /\ At("kh", "Q", <<IntTok(0), VarTok("T")>>, FALSE, TRUE, "knot") = "Error"
                    /\ At("kh", "Z", <<IntTok(0)>>, FALSE, TRUE, "empty") = "Error"
                    /\ At("kh", "Z", <<IntTok(0)>>, FALSE, FALSE, "empty") = "Table2D"

ASSUME MirrorIrrelevant
ASSUME KhWithinCkh
ASSUME ReducedWithin
ASSUME BadInputIsError
ASSUME KindByCmd
ASSUME KhNeedsPID
ASSUME ZeroIsBigraded
ASSUME CharMatters
ASSUME Readme

\* ---------------------------------------------------------------- the cell grammar
TorOrder == <<"2", "3", "4">>
Mults    == [{"2", "3", "4"} -> 0..3]
BagOfM(m) == [x \in {y \in DOMAIN m : m[y] > 0} |-> m[x]]
Groups   == {Group(s, r, BagOfM(m)) : s \in {"Z", "Q[H]"}, r \in 0..3, m \in Mults}

\* every non-zero group has exactly one reading, and it is the group; the zero group is never a summand expression
RoundTrip == \A g \in Groups : IF IsZeroGroup(g) THEN Render(g, TorOrder) = <<>>
                               ELSE Denote(Render(g, TorOrder)) = g /\ ~IsZeroCell(Render(g, TorOrder))
\* the reading does not depend on the order of the torsion summands
OrderFree == \A g \in Groups : ~IsZeroGroup(g) => Denote(Render(g, <<"4", "2", "3">>)) = g
\* ill-formed cells have no reading
Rejects == /\ ~Denote(<<TSym("Z"), TSup(1)>>).ok                      \* Z^1 is never printed
           /\ ~Denote(<<TSym("Z"), TOp, TSym("Z")>>).ok               \* Z + Z
           /\ ~Denote(<<TLp, TSym("Z"), TSlash, TTor("2"), TRp, TOp, TSym("Z")>>).ok   \* torsion before free
           /\ ~Denote(<<TLp, TSym("Z"), TSlash, TTor("2"), TRp, TOp, TLp, TSym("Z"), TSlash, TTor("2"), TRp>>).ok
           /\ ~Denote(<<TSym("Z"), TOp, TLp, TSym("Q"), TSlash, TTor("2"), TRp>>).ok   \* mixed symbols
           /\ ~Denote(<<TSym("Z"), TOp>>).ok /\ ~Denote(<<TOp>>).ok /\ ~Denote(<<TDot>>).ok /\ ~Denote(<<>>).ok
\* a hand-made table: the trefoil
Trefoil == LET tab == [cols |-> <<-3, -2, -1, 0>>, rows |-> <<-1, -3, -5, -7, -9>>, zeros |-> 15,
                       cells |-> << [c |-> 4, r |-> 1, tok |-> <<TSym("Z")>>], [c |-> 4, r |-> 2, tok |-> <<TSym("Z")>>],
                                    [c |-> 2, r |-> 3, tok |-> <<TSym("Z")>>],
                                    [c |-> 2, r |-> 4, tok |-> <<TLp, TSym("Z"), TSlash, TTor("2"), TRp>>],
                                    [c |-> 1, r |-> 5, tok |-> <<TSym("Z")>>] >>]
               lib(j7) == [sym |-> "Z", cells |-> << [i |-> 0, j |-> -1, rank |-> 1, tors |-> <<>>], [i |-> 0, j |-> -3, rank |-> 1, tors |-> <<>>],
                                    [i |-> -2, j |-> -5, rank |-> 1, tors |-> <<>>], [i |-> -2, j |-> j7, rank |-> 0, tors |-> <<"2">>],
                                    [i |-> -3, j |-> -9, rank |-> 1, tors |-> <<>>] >>]
           IN TableMatches(tab, lib(-7)) /\ ~TableMatches(tab, lib(-5)) /\ ~TableMatches(tab, lib(-9))
                /\ ~TableMatches([tab EXCEPT !.cols = <<0, -1, -2, -3>>], lib(-7))
                /\ ~TableMatches([tab EXCEPT !.zeros = 14], lib(-7))
\* the Euler mode accepts a table that moved two generators across q-degrees, and rejects a changed alternating sum
EulerEx == LET lib == [sym |-> "Q", cells |-> << [i |-> 0, j |-> 1, rank |-> 2, tors |-> <<>>], [i |-> -1, j |-> -1, rank |-> 1, tors |-> <<>>] >>]
               tab(r0) == [cols |-> <<-1, 0>>, rows |-> <<1, -1>>, zeros |-> 2,
                           cells |-> << [c |-> 2, r |-> 2, tok |-> FreeToks("Q", r0)], [c |-> 1, r |-> 1, tok |-> <<TSym("Q")>>] >>]
               tabq == [cols |-> <<-1, 0>>, rows |-> <<1, -1>>, zeros |-> 1,
                        cells |-> << [c |-> 2, r |-> 1, tok |-> FreeToks("Q", 3)], [c |-> 1, r |-> 1, tok |-> <<TSym("Q")>>],
                                     [c |-> 1, r |-> 2, tok |-> <<TSym("Q")>>] >>]
           IN EulerMatches(tab(2), lib) /\ ~TableMatches(tab(2), lib) /\ ~EulerMatches(tab(3), lib) /\ ~EulerQMatches(tab(2), lib)
                /\ EulerQMatches(tabq, lib) /\ EulerMatches(tabq, lib) /\ ~TableMatches(tabq, lib)   \* an uncancelled pair at j = 1
                /\ ~EulerQMatches([tabq EXCEPT !.cells[2].r = 2], lib)
                /\ ~EulerMatches([tab(2) EXCEPT !.cells[1].tok = <<TSym("Z"), TSup(2)>>], lib)
\* the generator table is compared exactly for the graded theories
ModeEx == /\ GenMode("Z", <<IntTok(0)>>) = "euler_q" /\ GenMode("Q", <<VarTok("H")>>) = "exact" /\ GenMode("F3", <<IntTok(0), VarTok("T")>>) = "exact"
          /\ GenMode("Z", <<VarTok("H"), VarTok("T")>>) = "euler_q" /\ GenMode("F2", <<IntTok(2), IntTok(6)>>) = "exact"
          /\ GenMode("F2", <<VarTok("H"), VarTok("T")>>) = "exact" /\ GenMode("Q", <<IntTok(0)>>) = "exact"
          /\ GenMode("Z", <<IntTok(2)>>) = "euler" /\ GenMode("Q", <<VarTok("T")>>) = "euler" /\ GenMode("Q", <<VarTok("T"), VarTok("H")>>) = "euler"
          /\ GenMode("F3", <<IntTok(0), IntTok(2)>>) = "euler" /\ GenMode("Q", <<RatTok(0, 1)>>) = "exact"
ASSUME EulerEx
ASSUME ModeEx
ASSUME RoundTrip
ASSUME OrderFree
ASSUME Rejects
ASSUME Trefoil
=============================================================================
