CONSTANTS
  AbsN = 100
  AbsKh = 100
  MaxStrands = 3
  MaxLen = 3
  MaxDepth = 1
  MaxCross = 5
  ExtraRoots <- Fig8Root
SPECIFICATION MCSpec
INVARIANTS KhGhost EulerJones GhostWrithe GhostComps DiagramOK
VIEW View
CHECK_DEADLOCK FALSE
