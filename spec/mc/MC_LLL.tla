------------------------------- MODULE MC_LLL -------------------------------
(* Design-level LLL over Z as a step machine (size-reduce / swap / advance / step back), run to completion
   from every 2x2 and 2x3 integer basis with entries -VMax..VMax and independent rows.  Invariants: the lattice is
   preserved (B = P A0 with det P = +-1), the potential d_1 strictly decreases at every swap (termination),
   and the final basis satisfies the reducedness contract of LLL.tla. *)
EXTENDS LLL, TLC
VARIABLES A0, B, P, k, pot
mvars == <<A0, B, P, k, pot>>
CONSTANT VMax
V == -VMax..VMax
Inputs == {A \in UNION {{[m |-> 2, n |-> c, a |-> a] : a \in [1..2 -> [1..c -> V]]} : c \in 2..3} : GramDet(RI, A, 2) > 0}
D(j) == IF j = 0 THEN 1 ELSE GramDet(RI, B, j)
Round(a, b) == (2 * a + b) \div (2 * b)      \* nearest integer to a / b for b > 0 (\div is floor division)
Potential == D(1)
LovaszOK(kk) == 4 * (D(kk - 2) * D(kk) + Lam(RI, B, kk, kk - 1) * Lam(RI, B, kk, kk - 1)) >= 3 * D(kk - 1) * D(kk - 1)
MInit == /\ A0 \in Inputs /\ B = A0 /\ P = MId(RI, 2) /\ k = 2 /\ pot = GramDet(RI, A0, 1)
\* row k -= q * row j
Reduce(j) == LET q == Round(Lam(RI, B, k, j), D(j)) IN
             /\ q # 0
             /\ B' = MAddRowTo(RI, B, j, k, -q) /\ P' = MAddRowTo(RI, P, j, k, -q) /\ UNCHANGED <<A0, k, pot>>
SizeReducedAt(j) == Round(Lam(RI, B, k, j), D(j)) = 0
Swap == /\ k <= 2 /\ SizeReducedAt(k - 1) /\ ~LovaszOK(k)
        /\ B' = MSwapRows(B, k - 1, k) /\ P' = MSwapRows(P, k - 1, k)
        /\ k' = (IF k > 2 THEN k - 1 ELSE k) /\ pot' = GramDet(RI, B', 1) /\ UNCHANGED A0
Advance == /\ k <= 2 /\ \A j \in 1..k-1 : SizeReducedAt(j)
           /\ LovaszOK(k) /\ k' = k + 1 /\ UNCHANGED <<A0, B, P, pot>>
MNext == (k <= 2 /\ \E j \in 1..k-1 : Reduce(j)) \/ Swap \/ Advance
MSpec == MInit /\ [][MNext]_mvars /\ WF_mvars(MNext)
LatticeOK == MSame(RI, B, MMul(RI, P, A0)) /\ MDet(RI, P) \in {1, -1}
PotDecreases == [][(B' = MSwapRows(B, k - 1, k) /\ k <= 2) => pot' < pot]_mvars
Finished == k = 3
ResultOK == Finished => LLLReduced(RI, B)
Terminates == <>Finished
=============================================================================
