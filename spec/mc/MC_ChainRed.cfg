SPECIFICATION MSpec
INVARIANTS Inv
CHECK_DEADLOCK FALSE
