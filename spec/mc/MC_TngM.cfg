CONSTANTS
  K = 4
  AL = 2
SPECIFICATION MSpec
INVARIANT Inv
CHECK_DEADLOCK FALSE
