CONSTANTS
  Wide = FALSE
SPECIFICATION Spec
INVARIANTS TypeOK OutcomeTotal ErrorNeverTable TableExitsZero
CHECK_DEADLOCK FALSE
