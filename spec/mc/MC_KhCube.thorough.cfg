CONSTANTS
  AbsN = 100
  MaxStrands = 3
  MaxLen = 3
  MaxDepth = 1
  MaxCross = 4
  HT <- HTQuick
SPECIFICATION KSpec
INVARIANTS JGhost KhStructure KhTables
VIEW KView
CHECK_DEADLOCK FALSE
