------------------------------ MODULE MC_LinAlg ------------------------------
(* The elimination-based invariant factors agree with the gcd-of-minors definition, and the modular
   ranks with minors mod p, on every 2x2, 2x3 and 3x2 integer matrix with entries -3..3; universal
   coefficient identity on all composable pairs of small matrices. *)
EXTENDS LinAlg, TLC
VARIABLE k
V == -2..2
Ms(m, n) == [1..m -> [1..n -> V]]
RECURSIVE G2(_,_)
G2(a, b) == IF b = 0 THEN LAbs(a) ELSE G2(b, a % LAbs(b))
RECURSIVE GSet(_)
GSet(S) == IF S = {} THEN 0 ELSE LET x == CHOOSE x \in S : TRUE IN G2(x, GSet(S \ {x}))
Min1(A) == GSet({A[i][j] : i \in 1..NRows(A), j \in 1..NCols(A)})
Det2(A, i1, i2, j1, j2) == A[i1][j1] * A[i2][j2] - A[i1][j2] * A[i2][j1]
Min2(A) == GSet({Det2(A, i1, i2, j1, j2) : i1 \in 1..NRows(A), i2 \in 1..NRows(A), j1 \in 1..NCols(A), j2 \in 1..NCols(A)})
Expected(A) == LET g1 == Min1(A)  g2 == Min2(A) IN
               IF g1 = 0 THEN <<>> ELSE IF g2 = 0 THEN <<g1>> ELSE <<g1, g2 \div g1>>
Shapes == {<<2, 2>>, <<2, 3>>, <<3, 2>>}
SmithOK == \A s \in Shapes : \A A \in Ms(s[1], s[2]) :
              /\ InvFactors(A) = Expected(A)
              /\ \A p \in {2, 3} : RankP(A, p) = Cardinality({i \in 1..Len(Expected(A)) : Expected(A)[i] % p # 0})
\* universal coefficients on d2 * d1 = 0 (1x2 after 2x1, entries -3..3):  dim_Fp = rank + #(p | t at this degree) + #(p | t one degree up)
UctOK == \A d1 \in Ms(2, 1), d2 \in Ms(1, 2) : (d2[1][1] * d1[1][1] + d2[1][2] * d1[2][1] = 0) =>
            \A p \in {2, 3} :
               HDimP(2, d1, d2, p) = HRank(2, d1, d2) + Cardinality({i \in 1..Len(HTors(d1)) : HTors(d1)[i] % p = 0})
                                                     + Cardinality({i \in 1..Len(HTors(d2)) : HTors(d2)[i] % p = 0})
Init == k = 0
Next == FALSE /\ k' = k
Spec == Init /\ [][Next]_k
AllOK == SmithOK /\ UctOK
=============================================================================
