CONSTANTS
  QDegs = {0, 2}
  Orders = {2, 3}
  MaxSummands = 2
  Mode = "min"
SPECIFICATION Spec
INVARIANTS NormalizeIsSmith TotalKept SplitAgrees
CHECK_DEADLOCK FALSE
