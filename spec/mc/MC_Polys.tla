------------------------------ MODULE MC_Polys ------------------------------
(* The polynomial / free-module oracle of C16 (Polys.tla on top of Rings.tla) is model-checked on
   small complete domains: the free-algebra laws the property states (ring axioms over every
   coefficient ring kind, evaluation is a ring homomorphism, the leading term is multiplicative
   over a domain) and the linearity laws of the free-module operations.  One state per (ring, group of
   laws); the laws are evaluated when that state is expanded, so that TLC's workers share the work. *)
EXTENDS Polys, MonoOrd, TLC

CONSTANT Tier           \* "quick" | "thorough"
VARIABLES R, ok

Coefs(b) == CASE b.k = "I" -> {-1, 0, 2}
              [] b.k = "Z" -> {BN(-1), BN(0), BN(1000)}
              [] b.k = "Q" -> {QOfInts(-1, 2), QOfInts(0, 1), QOfInts(2, 3)}
              [] b.k = "F" -> 0 .. b.p-1
              [] b.k = "G" -> {ZOf(0, 1), ZOf(0, 0), ZOf(1, -1)}
Exps(nv, lau) == IF nv = 0 THEN (IF lau THEN {-1, 0, 2} ELSE {0, 1, 2})
                 ELSE IF nv = 2 THEN {<<0,0>>, <<1,0>>, IF lau THEN <<-1,1>> ELSE <<0,1>>}
                 ELSE {<<0,0,0>>, <<1,0,0>>, IF lau THEN <<0,-1,1>> ELSE <<0,1,1>>}
\* all polynomials with support inside Exps and coefficients in Coefs (27 of them; 64 over F3... )
Dom(P, lau) == LET E == Exps(P.nv, lau) IN {PClean(P, E, f) : f \in [E -> Coefs(P.b)]}

Cases == { <<RP(RI, 0), TRUE>>, <<RP(RI, 2), FALSE>>, <<RP(RZ, 0), FALSE>>, <<RP(RQ, 0), TRUE>>, <<RP(RF(3), 0), FALSE>>,
           <<RP(RG, 0), TRUE>>, <<RP(RI, 3), FALSE>> }
         \cup (IF Tier = "thorough" THEN { <<RP(RI, 0), FALSE>>, <<RP(RI, 2), TRUE>>, <<RP(RF(5), 2), FALSE>>, <<RP(RQ, 3), TRUE>>,
                                           <<RP(RQ, 2), FALSE>>, <<RP(RG, 2), FALSE>>, <<RP(RZ, 3), TRUE>> } ELSE {})

Same(P, x, y) == RSame(P, x, y)
LeadE(P, f)   == MMaxOf("grlex", P.nv, DOMAIN f)
IsDomain(b)   == TRUE        \* Z, Q, F_p, Z[i] are integral domains

\* the laws over triples are checked on the sub-domain with two coefficient values (8 polynomials; the full
\* triples of three rings are part of MC_Rings)
Small(P, lau) == LET E == Exps(P.nv, lau)  C == {c \in Coefs(P.b) : RIsZero(P.b, c)} \cup {CHOOSE c \in Coefs(P.b) : ~RIsZero(P.b, c)}
                 IN {PClean(P, E, f) : f \in [E -> C]}
RingAxioms(P, D, D3) ==
    /\ \A x \in D : /\ Same(P, RAdd(P, x, RZero(P)), x) /\ Same(P, RMul(P, x, ROne(P)), x) /\ Same(P, RMul(P, ROne(P), x), x)
                    /\ RIsZero(P, RAdd(P, x, RNeg(P, x))) /\ RAdd(P, x, RNeg(P, x)) = PEmpty
                    /\ RMul(P, x, RZero(P)) = PEmpty /\ RMul(P, RZero(P), x) = PEmpty
                    /\ RCanon(P, x) \/ P.b.k = "Q"
    /\ \A x, y \in D : /\ Same(P, RAdd(P, x, y), RAdd(P, y, x)) /\ Same(P, RMul(P, x, y), RMul(P, y, x))
                       /\ Same(P, RSub(P, RAdd(P, x, y), y), x)
                       \* the operations never produce a stored zero coefficient
                       /\ \A e \in DOMAIN RAdd(P, x, y) : ~RIsZero(P.b, RAdd(P, x, y)[e])
                       /\ \A e \in DOMAIN RMul(P, x, y) : ~RIsZero(P.b, RMul(P, x, y)[e])
                       \* no zero divisors: the coefficient rings are domains
                       /\ (RMul(P, x, y) = PEmpty) <=> (x = PEmpty \/ y = PEmpty)
    /\ \A x \in D, y, z \in D3 : /\ Same(P, RAdd(P, RAdd(P, x, y), z), RAdd(P, x, RAdd(P, y, z)))
                                 /\ Same(P, RMul(P, x, RAdd(P, y, z)), RAdd(P, RMul(P, x, y), RMul(P, x, z)))
                                 /\ Same(P, RMul(P, RMul(P, x, y), z), RMul(P, x, RMul(P, y, z)))

\* evaluation at a point is a ring homomorphism (exponents >= 0)
Points(P) == LET C == Coefs(P.b) IN IF P.nv = 0 THEN C ELSE [1..P.nv -> C]
EvalHom(P, D) ==
    \A pt \in Points(P) :
       /\ RSame(P.b, PEval(P, ROne(P), pt), ROne(P.b)) /\ RSame(P.b, PEval(P, PEmpty, pt), RZero(P.b))
       /\ \A i \in 1..(IF P.nv = 0 THEN 1 ELSE P.nv) :
             RSame(P.b, PEval(P, PMono(P, EUnit(P.nv, i), ROne(P.b)), pt), IF P.nv = 0 THEN pt ELSE pt[i])
       /\ \A x, y \in D : /\ RSame(P.b, PEval(P, RAdd(P, x, y), pt), RAdd(P.b, PEval(P, x, pt), PEval(P, y, pt)))
                          /\ RSame(P.b, PEval(P, RMul(P, x, y), pt), RMul(P.b, PEval(P, x, pt), PEval(P, y, pt)))
       /\ \A x \in D, c \in Coefs(P.b) : RSame(P.b, PEval(P, PScale(P, c, x), pt), RMul(P.b, c, PEval(P, x, pt)))

\* leading term (graded lex) and degree are multiplicative over a domain; the support of a sum is inside the union
LeadMult(P, D) ==
    \A x, y \in D : (x # PEmpty /\ y # PEmpty) =>
       LET p == RMul(P, x, y) IN
       /\ LeadE(P, p) = EAdd(P.nv, LeadE(P, x), LeadE(P, y))
       /\ RSame(P.b, p[LeadE(P, p)], RMul(P.b, x[LeadE(P, x)], y[LeadE(P, y)]))
       /\ LET s == RAdd(P, x, y) IN s # PEmpty =>
             MGrlex(P.nv, LeadE(P, s), LeadE(P, x)) <= 0 \/ MGrlex(P.nv, LeadE(P, s), LeadE(P, y)) <= 0

\* constructors and free-module operations
Lin(P, D) ==
    LET E == UNION {DOMAIN x : x \in D}
        phi == [e \in E |-> IF P.nv = 0 THEN e \div 2 ELSE [e EXCEPT ![1] = 0]]      \* not injective
        K == {e \in E : e # EZero(P.nv)}
        F == [e \in E |-> RAdd(P, PMono(P, e, ROne(P.b)), PMono(P, EZero(P.nv), RNeg(P.b, ROne(P.b))))]
    IN
    /\ \A x \in D : /\ Same(P, PFromTerms(P, PTerms(x)), x)
                    /\ PFromTerms(P, PTerms(x) \o PTerms(RNeg(P, x))) = PEmpty
                    /\ Same(P, PPow(P, x, 2), RMul(P, x, x)) /\ Same(P, PPow(P, x, 3), RMul(P, x, RMul(P, x, x)))
                    /\ \A c \in Coefs(P.b) : Same(P, PScale(P, c, x), RMul(P, PConst(P, c), x))
                    /\ PMapGens(P, x, [e \in DOMAIN x |-> e]) = x
                    /\ Same(P, RAdd(P, PFilter(P, x, K), PFilter(P, x, E \ K)), x)
    /\ \A x, y \in D : /\ Same(P, PFromTerms(P, PTerms(x) \o PTerms(y)), RAdd(P, x, y))
                       /\ Same(P, PMapGens(P, RAdd(P, x, y), phi), RAdd(P, PMapGens(P, x, phi), PMapGens(P, y, phi)))
                       /\ Same(P, PFilter(P, RAdd(P, x, y), K), RAdd(P, PFilter(P, x, K), PFilter(P, y, K)))
                       /\ Same(P, PApply(P, RAdd(P, x, y), F), RAdd(P, PApply(P, x, F), PApply(P, y, F)))
                       /\ Same(P, PCombine(P, x, y, LAMBDA a, b : EAdd(P.nv, a, b)), RMul(P, x, y))
                       /\ Same(P, PCombine(P, x, y, LAMBDA a, b : a), PScale(P, PEval(P, [e \in DOMAIN y |-> y[e]], IF P.nv = 0 THEN ROne(P.b) ELSE [i \in 1..P.nv |-> ROne(P.b)]), x))
       \* (combining with the key map "left" multiplies x by the sum of the coefficients of y; the sum of
       \*  the coefficients is the value at the point (1,..,1) - only used for exponents >= 0)
    /\ LET IC == Coefs(P.b) \cup (CASE P.b.k = "Q" -> {QMk(c.d, c.n) : c \in {c \in Coefs(P.b) : c.n.s # 0}}
                                    [] P.b.k = "G" -> {ZMk(c.a, BNeg(c.b)) : c \in Coefs(P.b)}
                                    [] OTHER -> {})
       IN \A x \in D : PIsUnit(P, x, TRUE) <=> \E y \in D \cup {PMono(P, ENeg(P.nv, e), c) : e \in E, c \in IC} : PIsOne(P, RMul(P, x, y))

Kinds == {"ring", "eval", "lead", "lin"}
Checks(P, lau, kind) ==
    LET D == Dom(P, lau) IN
    CASE kind = "ring" -> RingAxioms(P, D, Small(P, lau))
      [] kind = "eval" -> lau \/ EvalHom(P, D)
      [] kind = "lead" -> LeadMult(P, D)
      [] kind = "lin"  -> lau \/ Lin(P, D)

Init == R \in Cases \X Kinds /\ ok = "?"
Next == ok = "?" /\ ok' = (IF Checks(R[1][1], R[1][2], R[2]) THEN "holds" ELSE "FAILS") /\ R' = R
Spec == Init /\ [][Next]_<<R, ok>>
AllOK == ok # "FAILS"
=============================================================================
