----------------------------- MODULE MC_EucOps -----------------------------
(* The contracts are checked on complete small domains: they accept the answers of a reference
   implementation written in TLA+ (so they are satisfiable), and they pin the answer down
   (any accepted answer is the mathematically right one), so they are not vacuous. *)
EXTENDS EucOps, TLC

ZD == -8..8
\* reference: truncated division on TLC integers
RefQ(a, b) == IF (a >= 0) = (b > 0) THEN IAbs(a) \div IAbs(b) ELSE -(IAbs(a) \div IAbs(b))
RefR(a, b) == a - RefQ(a, b) * b
GD == {ZOf(x, y) : x \in -2..2, y \in -2..2}

ContractsOnI ==
    /\ \A a \in ZD, b \in ZD \ {0} : DivRemOK(RI, a, b, RefQ(a, b), RefR(a, b))
    /\ \A a \in ZD, b \in ZD \ {0}, q \in ZD, r \in ZD :
          DivRemOK(RI, a, b, q, r) => (a = q * b + r /\ IAbs(r) < IAbs(b))
    /\ \A a \in ZD, b \in ZD \ {0}, q \in -9..9 :
          DivRoundOK(RI, a, b, q) => \A q2 \in -9..9 : IAbs(a - q * b) <= IAbs(a - q2 * b)
    /\ \A a \in ZD, b \in ZD \ {0} : \E q \in -9..9 : DivRoundOK(RI, a, b, q)
    /\ \A a \in -6..6, b \in -6..6, d \in -6..6, s \in -3..3, t \in -3..3 :
          GcdxOK(RI, a, b, d, s, t, IF d = 0 THEN 0 ELSE a \div IAbs(d), IF d = 0 THEN 0 ELSE b \div IAbs(d))
             => d = IGcd(a, b)
    /\ \A a \in -6..6, b \in -6..6 : \E s \in -3..3, t \in -3..3 : LET d == IGcd(a, b) IN
          GcdxOK(RI, a, b, d, s, t, IF d = 0 THEN 0 ELSE a \div d, IF d = 0 THEN 0 ELSE b \div d)
    /\ \A a \in -6..6, b \in -6..6, m \in 0..36 :
          ((a # 0 \/ b # 0) /\ LcmOK(RI, a, b, m, IGcd(a, b))) => m * IGcd(a, b) = IAbs(a * b)
    /\ \A a \in ZD, u \in ZD : NormUnitOK(RI, a, u, a * u) => (a * u = IAbs(a) /\ u \in {1, -1})

\* Gaussian / Eisenstein: the nearest-lattice-point quotient satisfies the division contract, the
\* normalised associate is unique, associates are recognised
ContractsOnQuad(R) ==
    /\ \A a \in GD, b \in GD \ {ZOf(0,0)} : \E q \in {ZOf(x, y) : x \in -5..5, y \in -5..5} :
          DivRemOK(R, a, b, q, RSub(R, a, RMul(R, q, b)))
    /\ \A a \in GD : Cardinality({u \in RUnitSet(R) : NormUnitOK(R, a, u, RMul(R, a, u))}) =
                        (IF RIsZero(R, a) THEN Cardinality(RUnitSet(R)) ELSE 1)
    /\ \A a \in GD, b \in GD : Associates(R, a, b) <=> (\E u \in GD : RIsUnit(R, u) /\ RMul(R, a, u) = b)
    /\ \A a \in GD : UnitOK(R, a, RIsUnit(R, a), RIsUnit(R, a),
                            IF RIsUnit(R, a) THEN CHOOSE v \in GD : RMul(R, a, v) = ROne(R) ELSE ROne(R))

\* F3[x]: long division reference is not needed - every (q, r) accepted is the unique Euclidean pair
PD == LET E == {0, 1, 2} IN {PClean(RP(RF(3), 0), E, f) : f \in [E -> 0..2]}
ContractsOnPoly ==
    LET R == RP(RF(3), 0) IN
    /\ \A a \in PD, b \in PD \ {PEmpty} : Cardinality({qr \in PD \X PD : DivRemOK(R, a, b, qr[1], qr[2])}) = 1
    /\ \A a \in PD : RIsUnit(R, a) <=> (\E b \in PD : RSame(R, RMul(R, a, b), ROne(R)))

VARIABLE k
MInit == k = 0 /\ obs = <<>> /\ calls = [x \in Kinds |-> 0]
MNext == FALSE /\ UNCHANGED <<k, obs, calls>>
MSpec == MInit /\ [][MNext]_<<k, obs, calls>>
AllOK == ContractsOnI /\ ContractsOnQuad(RG) /\ ContractsOnQuad(RE) /\ ContractsOnPoly
=============================================================================
