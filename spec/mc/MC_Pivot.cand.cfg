CONSTANTS
  Rows = {1, 2, 3}
  Cols = {1, 2, 3}
  AllCand = FALSE
SPECIFICATION Spec
INVARIANTS DistinctRows DistinctCols CondOK SnapshotOK Acyclic NoDeadlock ResultOK
CHECK_DEADLOCK FALSE
