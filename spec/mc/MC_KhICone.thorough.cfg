CONSTANTS
  AbsN = 100
  Family = {"3_1", "4_1"}
  Mirrors = {FALSE, TRUE}
  MaxDepth = 2
  DeepLevel = 2
  CheckMirror = TRUE
SPECIFICATION MCSpec
INVARIANTS SymOK Checked KTypeOK SSOK
VIEW View
CHECK_DEADLOCK FALSE
