CONSTANTS
  AbsN = 100
  Family = {"3_1", "4_1", "5_1", "5_2a", "5_2b", "6_1a", "6_1b", "6_2a", "6_2b", "6_3", "7_1", "7_3a", "7_4b", "7_5a", "7_6a", "7_7b"}
  Mirrors = {FALSE}
  MaxDepth = 0
  DeepLevel = 1
  CheckMirror = FALSE
SPECIFICATION MCSpec
INVARIANTS SymOK Checked KTypeOK SSOK
VIEW View
CHECK_DEADLOCK FALSE
