----------------------------- MODULE MC_BigNum -----------------------------
(* The bignum library is itself model-checked: against TLC's native integers on a set of
   values straddling limb boundaries, and against the ring axioms on multi-limb numbers
   built by repeated multiplication (hundreds of digits). *)
EXTENDS BigNum, TLC

VARIABLE k
Small == {0, 1, 2, 7, 999, 1000, 1001, 1998, 1999, 2000, 31622, 46340, 999999, 1000000}
Signed == Small \cup {-x : x \in Small}

NativeOK ==
    \A x \in Signed, y \in Signed :
       /\ BIsCanon(BN(x))
       /\ BToInt(BN(x)) = x
       /\ BAdd(BN(x), BN(y)) = BN(x + y)
       /\ BSub(BN(x), BN(y)) = BN(x - y)
       /\ (x <= 46340 /\ x >= -46340 /\ y <= 46340 /\ y >= -46340) => BMul(BN(x), BN(y)) = BN(x * y)
       /\ BCmp(BN(x), BN(y)) = (IF x < y THEN -1 ELSE IF x > y THEN 1 ELSE 0)
       /\ \A p \in {2, 3, 5, 7} : BMod(BN(x), p) = x % p

RECURSIVE Pow(_,_)
Pow(x, n) == IF n = 0 THEN BOne ELSE BMul(x, Pow(x, n-1))

\* multi-hundred-digit values
Bigs == {Pow(BN(999999), 20), BNeg(Pow(BN(1000001), 25)), BAdd(Pow(BN(46340), 40), BN(-1)), Pow(BN(1000), 60), BN(-999)}

AxiomsOK ==
    \A x \in Bigs, y \in Bigs, z \in Bigs :
       /\ BIsCanon(BMul(x, y)) /\ BIsCanon(BAdd(x, y)) /\ BIsCanon(BSub(x, y))
       /\ BAdd(x, y) = BAdd(y, x)
       /\ BMul(x, y) = BMul(y, x)
       /\ BAdd(BAdd(x, y), z) = BAdd(x, BAdd(y, z))
       /\ BMul(BMul(x, y), z) = BMul(x, BMul(y, z))
       /\ BMul(x, BAdd(y, z)) = BAdd(BMul(x, y), BMul(x, z))
       /\ BSub(BAdd(x, y), y) = x
       /\ BCmp(x, y) = -BCmp(y, x)
       /\ BCmp(BAdd(x, BOne), x) = 1
       /\ \A p \in {2, 3, 7} : BMod(BMul(x, y), p) = (BMod(x, p) * BMod(y, p)) % p

Init == k = 0
Next == FALSE /\ k' = k
Spec == Init /\ [][Next]_k
=============================================================================
