CONSTANTS
  Rows = {1, 2, 3}
  Cols = {1, 2, 3, 4}
  AllCand = TRUE
SPECIFICATION Spec
INVARIANTS DistinctRows DistinctCols CondOK SnapshotOK Acyclic NoDeadlock ResultOK
CHECK_DEADLOCK FALSE
