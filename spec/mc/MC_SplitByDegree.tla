-------------------------- MODULE MC_SplitByDegree --------------------------
(* Exhaustive model of SplitByDegree: all multisets of at most MaxSummands homogeneous torsion summands.
   MC_SplitByDegree.primary.cfg (Mode = "primary") must pass all three invariants;
   MC_SplitByDegree.min.cfg (Mode = "min", what the code does) is EXPECTED to violate SplitAgrees. *)
EXTENDS SplitByDegree, TLC
=============================================================================
