CONSTANTS
  Dim = 1
SPECIFICATION MSpec
INVARIANT TypeOK
INVARIANT FragmentOK
INVARIANT Deterministic
INVARIANT FunctionOK
CHECK_DEADLOCK FALSE
