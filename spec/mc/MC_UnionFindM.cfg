CONSTANTS
  N = 5
SPECIFICATION MSpec
INVARIANT PartitionOK
CHECK_DEADLOCK FALSE
