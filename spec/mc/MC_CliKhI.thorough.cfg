CONSTANTS
  Wide = TRUE
SPECIFICATION Spec
INVARIANTS ITypeOK IOutcomeTotal IErrorNeverTable ITableExitsZero SSOK MirrorLaw
CHECK_DEADLOCK FALSE
