SPECIFICATION MSpec
INVARIANT AllOK
CHECK_DEADLOCK FALSE
