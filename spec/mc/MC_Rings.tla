------------------------------ MODULE MC_Rings ------------------------------
(* The ring library (the oracle of C07-C16) is model-checked against the commutative-ring
   axioms on small complete domains of every ring kind. *)
EXTENDS Rings, TLC

VARIABLE k

Dom(R) == CASE R.k = "I" -> -3..3
            [] R.k = "Z" -> {BN(x) : x \in {-1001, -2, -1, 0, 1, 3, 999, 1000}}
            [] R.k = "Q" -> {QOfInts(n, d) : n \in -2..2, d \in {-2, 1, 2, 3}}
            [] R.k = "F" -> 0 .. R.p-1
            [] R.k \in {"G", "E"} -> {ZOf(a, b) : a \in -1..1, b \in -1..2}
            [] R.k = "P" -> LET E == IF R.nv = 0 THEN {-1, 0, 2} ELSE {<<0,0>>, <<1,0>>, <<0,1>>}
                                C == {-1, 0, 1}
                            IN {PClean(R, E, f) : f \in [E -> {RFromInt(R.b, c) : c \in C}]}

Axioms(R) ==
    LET D == Dom(R) IN
    /\ \A x \in D : /\ RSame(R, RAdd(R, x, RZero(R)), x)
                    /\ RSame(R, RMul(R, x, ROne(R)), x)
                    /\ RIsZero(R, RAdd(R, x, RNeg(R, x)))
                    /\ RIsZero(R, RMul(R, x, RZero(R)))
    /\ \A x, y \in D : /\ RSame(R, RAdd(R, x, y), RAdd(R, y, x))
                       /\ RSame(R, RMul(R, x, y), RMul(R, y, x))
                       /\ RSame(R, RSub(R, RAdd(R, x, y), y), x)
    /\ \A x, y, z \in D : /\ RSame(R, RAdd(R, RAdd(R, x, y), z), RAdd(R, x, RAdd(R, y, z)))
                          /\ RSame(R, RMul(R, RMul(R, x, y), z), RMul(R, x, RMul(R, y, z)))
                          /\ RSame(R, RMul(R, x, RAdd(R, y, z)), RAdd(R, RMul(R, x, y), RMul(R, x, z)))

\* units: x is a unit iff some y in a sufficiently large domain inverts it
UnitsOK(R, D) == \A x \in D : RIsUnit(R, x) <=> \E y \in D : RSame(R, RMul(R, x, y), ROne(R))
\* normalisation: every element has exactly one normalised associate
NormOK(R, D) == \A x \in D : Cardinality({u \in RUnitSet(R) : RIsNormalized(R, RMul(R, x, u))}) =
                                (IF RIsZero(R, x) THEN Cardinality(RUnitSet(R)) ELSE 1)
\* Q: canonical form is unique per value, order is total and compatible
QOK == LET D == Dom(RQ) IN
       /\ \A x \in D : QCanonW(QCanonOf(x), <<>>) /\ QSame(QCanonOf(x), x)
       /\ \A x, y \in D : (QSame(x, y) <=> QCanonOf(x) = QCanonOf(y)) /\ (QCmp(x, y) = 0 <=> QSame(x, y))
                          /\ QCmp(x, y) = -QCmp(y, x)
       /\ \A x, y, z \in D : (QCmp(x, y) < 0 /\ QCmp(y, z) < 0) => QCmp(x, z) < 0
       /\ \A x, y, z \in D : QCmp(x, y) < 0 => QCmp(RAdd(RQ, x, z), RAdd(RQ, y, z)) < 0

AllOK ==
    /\ Axioms(RI) /\ Axioms(RZ) /\ Axioms(RQ) /\ Axioms(RF(2)) /\ Axioms(RF(3)) /\ Axioms(RF(5))
    /\ Axioms(RG) /\ Axioms(RE)
    /\ Axioms(RP(RI, 0)) /\ Axioms(RP(RF(3), 0)) /\ Axioms(RP(RI, 2))
    /\ UnitsOK(RG, {ZOf(a, b) : a \in -2..2, b \in -2..2}) /\ UnitsOK(RE, {ZOf(a, b) : a \in -2..2, b \in -2..2})
    /\ UnitsOK(RF(5), 0..4) /\ UnitsOK(RI, -3..3)
    /\ NormOK(RG, {ZOf(a, b) : a \in -2..2, b \in -2..2}) /\ NormOK(RE, {ZOf(a, b) : a \in -2..2, b \in -2..2})
    /\ NormOK(RI, -3..3) /\ NormOK(RF(5), 0..4)
    /\ QOK

Init == k = 0
Next == FALSE /\ k' = k
Spec == Init /\ [][Next]_k
=============================================================================
