------------------------------ MODULE MC_Link ------------------------------
(* Exhaustive model of Link/Braid on a small family:
     - every PD code with at most 2 crossings (labels 1..2n, each twice): classification theorems;
     - every braid word of length <= MaxLen on <= MaxStrands strands without free loop: the closure claims;
     - every history of at most MaxDepth moves (mirror, renumber, reorder, Reidemeister-1 kinks of all four
       kinds on every edge, disjoint union, connected sum, resolution) from those diagrams.
   Invariants are the statements of property C18 (ghost writhe / component count predicted by the moves agree
   with the first-principles definitions; two independent descriptions of components, orientations, circles agree). *)
EXTENDS Braid, TLC

CONSTANTS MaxStrands, MaxLen, MaxDepth, MaxCross

VARIABLE depth
mvars == <<dg, wr, nc, out, res, depth>>

Letters(n) == {g \in -(n-1)..(n-1) : g # 0}
Words == UNION {UNION {{w \in [1..k -> Letters(n)] : NoFreeLoop(n, w)} : k \in 1..MaxLen} : n \in 2..MaxStrands}
StrandsOf(w) == MaxOfSet({AbsI(w[k]) : k \in 1..Len(w)}) + 1

\* all PD codes with n crossings on labels 1..2n, each label exactly twice
CodesOf(n) == {[i \in 1..n |-> [j \in 1..4 |-> f[4 * (i - 1) + j]]] :
                 f \in {g \in [1..4*n -> 1..2*n] : \A x \in 1..2*n : Cardinality({k \in 1..4*n : g[k] = x}) = 2}}
SmallCodes == CodesOf(1) \cup CodesOf(2)

Summands == {<<<<1, 1, 2, 2>>>>, <<<<1, 2, 2, 1>>>>, <<<<4, 1, 3, 2>>, <<2, 3, 1, 4>>>>,
             <<<<1, 4, 2, 5>>, <<3, 6, 4, 1>>, <<5, 2, 6, 3>>>>,
             <<<<0, 2, 3, 1>>, <<3, 2, 0, 1>>>>}      \* last: two circles, one passes over only

\* ---------------------------------------------------------------- static theorems on all small codes
BruteSigns(D) == {SignsOf(D, o) : o \in {o \in Oris(D) : Admissible(D, o)}}
ASSUME SmallCodeTheorems ==
    \A pd \in SmallCodes : LET D == FromPD(pd) IN
        /\ IncidenceOK(D)
        /\ AdmSigns(D) = BruteSigns(D)                                   \* computed orientations = first-principles ones
        /\ Cardinality(DirOrbits(D)) = 2 * Cardinality(Components(D))
        /\ {EdgeSetOf(D, O) : O \in DirOrbits(D)} = Components(D)
        /\ (Oriented(D) /\ Planar(D)) => Cardinality(WritheSet(D)) = 1   \* on the sphere the writhe does not depend on the free choices
        /\ Oriented(D) => Cardinality(AdmSigns(D)) = 2 ^ Cardinality(FreeComponents(D))
\* the virtual Hopf link [a b a b] is oriented, not planar, and its writhe is not determined: Planar matters
ASSUME LET D == FromPD(<<<<1, 2, 1, 2>>>>) IN Oriented(D) /\ ~Planar(D) /\ WritheSet(D) = {1, -1}
\* the number of valid codes among the small ones (pinned so that the classification cannot silently change)
ASSUME Cardinality({pd \in CodesOf(1) : Valid(FromPD(pd))}) = 4
\* roots of the machine: valid small codes whose labels first occur in increasing order (one per renumbering class;
\* renumbering itself is a move of the machine and all codes are covered by the static theorems above)
FlatOf(pd) == [k \in 1..4*Len(pd) |-> pd[((k - 1) \div 4) + 1][((k - 1) % 4) + 1]]
CanonLabels(pd) == LET f == FlatOf(pd) IN \A k \in 1..Len(f) : \A x \in 1..f[k]-1 : \E k2 \in 1..k-1 : f[k2] = x
ValidSmall == {pd \in SmallCodes : CanonLabels(pd) /\ Valid(FromPD(pd))}

\* ---------------------------------------------------------------- the machine
Depth(d) == depth' = d
MCInit == LinkInit /\ depth = 0

Rev(D)    == [e \in Edges(D) |-> MaxEdge(D) + 7 - e]          \* an order-reversing renumbering
Rot(n)    == [i \in 1..n |-> (i % n) + 1]
Flip(n)   == [i \in 1..n |-> n + 1 - i]

Start ==
    /\ depth = 0 /\ dg = <<>>
    /\ \/ \E w \in Words : LET n == StrandsOf(w) IN
            /\ dg' = Closure(n, w) /\ wr' = ExpSum(w) /\ nc' = CycleCount(n, w)
            /\ out' = NoOut /\ res' = "ok"
       \/ \E pd \in ValidSmall : Load(pd)
    /\ Depth(1)

CanMove == depth >= 1 /\ depth <= MaxDepth
MvMirror   == CanMove /\ DoMirror /\ Depth(depth + 1)
MvRenumber == CanMove /\ DoRenumber(Rev(dg)) /\ Depth(depth + 1)
MvReorder  == /\ CanMove
              /\ \/ Len(dg) > 1 /\ DoReorder(Rot(Len(dg)))
                 \/ Len(dg) > 2 /\ DoReorder(Flip(Len(dg)))
              /\ Depth(depth + 1)
MvKink     == /\ CanMove /\ Len(dg) < MaxCross
              /\ \E x \in Edges(dg), k \in KinkKinds : DoKink(x, k)
              /\ Depth(depth + 1)
MvDisjoint == /\ CanMove
              /\ \E pd \in Summands : Len(dg) + Len(pd) <= MaxCross /\ DoDisjoint(pd)
              /\ Depth(depth + 1)
MvConnSum  == /\ CanMove
              /\ \E pd \in Summands : Len(dg) + Len(pd) <= MaxCross /\
                    \E x \in {MinOfSet(Edges(dg)), MaxOfSet(Edges(dg))}, y \in {pd[1][1], pd[1][2]} : DoConnSum(x, pd, y)
              /\ Depth(depth + 1)
Move == MvMirror \/ MvRenumber \/ MvReorder \/ MvKink \/ MvDisjoint \/ MvConnSum

CanSmooth == depth >= 1 /\ AllCrossings(dg) /\ Len(dg) > 0
SmResolve   == CanSmooth /\ (\E s \in States(Len(dg)) : DoResolve(s)) /\ Depth(MaxDepth + 2)
SmResolveAt == CanSmooth /\ depth = 1 /\ (\E k \in {0, Len(dg) - 1}, r \in {0, 1} : DoResolveAt(k, r)) /\ Depth(MaxDepth + 2)
SmNext      == /\ depth = MaxDepth + 2 /\ CrossingNum(dg) > 0
               /\ \E r \in {0, 1} : DoResolveAt(0, r)
               /\ Depth(MaxDepth + 2)

MCNext == Start \/ MvMirror \/ MvRenumber \/ MvReorder \/ MvKink \/ MvDisjoint \/ MvConnSum \/ SmResolve \/ SmResolveAt \/ SmNext
MCSpec == MCInit /\ [][MCNext]_mvars

\* ---------------------------------------------------------------- invariants (property C18)
\* two descriptions of the components agree; they partition the edge set
CompsThm == LET C == Components(dg) IN
    /\ UNION C = Edges(dg)
    /\ \A K1, K2 \in C : K1 # K2 => K1 \cap K2 = {}
    /\ {EdgeSetOf(dg, O) : O \in DirOrbits(dg)} = C
    /\ Cardinality(DirOrbits(dg)) = 2 * Cardinality(C)

\* orientations: computed = brute force; unique up to the components that never use a 0-2 strand;
\* writhe and signed crossing numbers do not depend on those choices; mirror negates
OriThm == (AllCrossings(dg) /\ Len(dg) > 0) =>
    /\ AdmSigns(dg) = BruteSigns(dg)
    /\ Cardinality(AdmSigns(dg)) = 2 ^ Cardinality(FreeComponents(dg))
    /\ Cardinality(WritheSet(dg)) = 1 /\ Cardinality(PosNegSet(dg)) = 1
    /\ AdmSigns(Mirror(dg)) = {[i \in 1..Len(dg) |-> -sg[i]] : sg \in AdmSigns(dg)}
    /\ \A sg1, sg2 \in AdmSigns(dg) : \A i \in 1..Len(dg) :
          (\A K \in FreeComponents(dg) : dg[i].e[2] \notin K) => sg1[i] = sg2[i]

\* every resolution is crossingless, its components are the classes of the edge identification,
\* neighbouring states differ by exactly one circle (sphere), Seifert state = the unique coherent state
ResThm == (AllCrossings(dg) /\ Len(dg) > 0) =>
    /\ \A s \in States(Len(dg)) : LET R == Resolve(dg, s) IN
          /\ AllResolved(R) /\ CrossingNum(R) = 0
          /\ Components(R) = CirclesOfState(dg, s)
          /\ \A i \in 1..Len(dg) : LET s2 == [s EXCEPT ![i] = 1 - s[i]]
                                       d  == Cardinality(CirclesOfState(dg, s2)) - Cardinality(CirclesOfState(dg, s))
                                   IN  d \in {1, -1}
    /\ \A H \in AdmHeadSets(dg) :
          {s \in States(Len(dg)) : Coherent(dg, H, s)} = {SeifertStateOf(SignsOfHeads(dg, H))}

\* partially resolved diagrams: still well formed, ghosts agree
PartialThm == (~AllCrossings(dg)) => (WellFormed(dg) /\ IncidenceOK(dg))

View == <<dg, wr, nc, depth>>
=============================================================================
