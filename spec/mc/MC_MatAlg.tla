----------------------------- MODULE MC_MatAlg -----------------------------
(* The matrix library (oracle of C07-C13) checked against algebraic laws on every matrix with
   dimensions 0..2 and entries -1..1 over the integers and over F3, and the Trans machine checked
   for all histories of length <= 2 built from those factors. *)
EXTENDS MatAlg, TLC

V == {-1, 0, 1}
Ms(m, n) == {[m |-> m, n |-> n, a |-> a] : a \in [1..m -> [1..n -> V]]}
Dims == 0..2
Perms(n) == {p \in [1..n -> 1..n] : {p[i] : i \in 1..n} = 1..n}
R3 == RF(3)
F3(A) == Mat(A.m, A.n, LAMBDA i, j : IMod(A.a[i][j], 3))

Laws ==
    /\ \A m \in Dims, n \in Dims : \A A \in Ms(m, n) :
         /\ MTrans(MTrans(A)) = A
         /\ MSame(RI, MMul(RI, MId(RI, m), A), A) /\ MSame(RI, MMul(RI, A, MId(RI, n)), A)
         /\ MIsZero(RI, MSub(RI, A, A))
         /\ \A k \in 0..m, l \in 0..n :
               MBlocks(MSubmat(A, 0, k, 0, l), MSubmat(A, 0, k, l, n), MSubmat(A, k, m, 0, l), MSubmat(A, k, m, l, n)) = A
         /\ \A p \in Perms(m), q \in Perms(n) :
               /\ MPermute(MPermute(A, p, q), PermInv(p), PermInv(q)) = A
               /\ MSame(RI, MMul(RI, MRowPerm(RI, p), A), MPermute(A, p, IdPerm(n)))
               /\ MSame(RI, MMul(RI, A, MColPerm(RI, q)), MPermute(A, IdPerm(m), q))
               /\ MSame(RI, MMul(RI, MRowPerm(RI, p), MColPerm(RI, p)), MId(RI, m))
    /\ \A m \in Dims, n \in 1..2, k \in 1..2 : \A A \in Ms(m, n), B \in Ms(n, k) :
         /\ MSame(RI, MTrans(MMul(RI, A, B)), MMul(RI, MTrans(B), MTrans(A)))
         /\ MSame(R3, F3(MMul(RI, A, B)), MMul(R3, F3(A), F3(B)))
    /\ \A A \in Ms(2, 2), B \in Ms(2, 2) : \A C \in Ms(2, 1) :
         /\ MSame(RI, MMul(RI, MAdd(RI, A, B), C), MAdd(RI, MMul(RI, A, C), MMul(RI, B, C)))
         /\ MDet(RI, MMul(RI, A, B)) = MDet(RI, A) * MDet(RI, B)

\* the Trans machine: all histories of appends / permutations / sub / reduce of length <= 2
Fs == UNION {Ms(m, n) : m \in 0..1, n \in 0..2}
MNext ==
    \/ \E n \in 0..2 : TNew(RI, n)
    \/ \E f \in Fs, b \in Fs : TAppend(RI, f, b)
    \/ \E p \in Perms(tr.tgt) : TAppendPerm(RI, [i \in 1..Len(p) |-> p[i] - 1])
    \/ TReduce
    \/ \E S \in SUBSET (0..tr.tgt-1) : TSub(RI, SetToSeq(S))
MSpec == Init /\ [][MNext]_vars
Bound == calls <= 3
\* the abstract products always have the shapes src -> tgt and back
TransShape == /\ tr.F.m = tr.tgt /\ tr.F.n = tr.src /\ tr.B.m = tr.src /\ tr.B.n = tr.tgt
              /\ MShapeOK(tr.F) /\ MShapeOK(tr.B)
LawsOnce == calls > 0 \/ Laws
=============================================================================
