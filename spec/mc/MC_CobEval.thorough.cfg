CONSTANTS
  MaxG = 1
  MaxD = 2
  Leftmost = FALSE
  SG = 4
  SD = 6
SPECIFICATION Spec
INVARIANTS ValueOK NormalOK Bounded DeadOK
VIEW MView
CHECK_DEADLOCK FALSE
