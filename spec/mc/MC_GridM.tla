------------------------------ MODULE MC_GridM ------------------------------
(* Exhaustive: every history of the machine over three degrees of dimension Dim, entries 0..1, listed supports of length <= 2
   (with repetition).  `amb` remembers whether an operation that may leave the regular fragment has happened:
   a grid that was only ever built and changed by the other operations is regular (FragmentOK).  Every observer is
   offered every candidate answer; exactly one is enabled on regular grids (Deterministic), so no action is vacuous. *)
EXTENDS GridM
CONSTANT Dim
VARIABLE amb
mvars == <<supp, data, dflt, amb>>
Degs  == CASE Dim = 1 -> {<<-1>>, <<0>>, <<1>>}
           [] Dim = 2 -> {<<0, 0>>, <<0, -1>>, <<1, 0>>}
           [] Dim = 3 -> {<<0, 0, 0>>, <<0, 1, -1>>, <<-1, 0, 1>>}
Vals  == 0..1
Supps == UNION {[1..n -> Degs] : n \in 0..2}
Flip(x) == 1 - x
Const1(x) == 1
MInit == Init /\ amb = FALSE
ADefault     == Default /\ amb' = FALSE
AGenerate    == \E s \in Supps : \E vals \in [1..Len(s) -> Vals], d \in Vals : Generate(s, vals, d) /\ amb' = ~NoRep(s)
AFromPairs   == \E s \in Supps : \E vals \in [1..Len(s) -> Vals] : FromPairs(s, vals) /\ amb' = ~NoRep(s)
AInsert      == \E i \in Degs, e \in Vals : InsertAt(i, e) /\ amb' = (amb \/ i \notin SetOf(supp))
ARemove      == \E i \in Degs, f \in BOOLEAN, o \in Vals : RemoveAt(i, f, o) /\ amb' = (amb \/ f)
AGetMutSet   == \E i \in Degs, e \in Vals, f \in BOOLEAN : GetMutSet(i, e, f) /\ UNCHANGED amb
AGet         == \E i \in Degs, o \in Vals : GetIs(i, o) /\ UNCHANGED amb
AGetDefault  == \E o \in Vals : GetDefaultIs(o) /\ UNCHANGED amb
AIsSupported == \E i \in Degs, o \in BOOLEAN : IsSupportedIs(i, o) /\ UNCHANGED amb
ASupport     == \E o \in Supps : SupportIs(o) /\ UNCHANGED amb
AIter        == \E o \in {IterSeq} : IterIs(o) /\ UNCHANGED amb
AIntoIter    == \E o \in {IterSeq} : IntoIterIs(o) /\ UNCHANGED amb
AMap         == (MapBy(Flip) \/ MapBy(Const1)) /\ UNCHANGED amb
ATruncated   == Dim = 1 /\ \E lo \in -1..1, hi \in -1..1 : Truncated(lo, hi) /\ UNCHANGED amb
MNext == ADefault \/ AGenerate \/ AFromPairs \/ AInsert \/ ARemove \/ AGetMutSet \/ AGet \/ AGetDefault \/ AIsSupported
         \/ ASupport \/ AIter \/ AIntoIter \/ AMap \/ ATruncated
MSpec == MInit /\ [][MNext]_mvars
TypeOK == /\ DOMAIN data \subseteq Degs /\ \A i \in DOMAIN data : data[i] \in Vals
          /\ dflt \in Vals /\ supp \in Supps
FragmentOK == ~amb => Regular
Deterministic == /\ \A i \in Degs : Cardinality({o \in Vals : ENABLED GetIs(i, o)}) = 1
                 /\ \A i \in Degs : Cardinality({o \in BOOLEAN : ENABLED IsSupportedIs(i, o)}) = 1
                 /\ Regular => Cardinality({o \in Supps : ENABLED SupportIs(o)}) = 1
\* the denoted function: a regular grid reads dflt exactly off its listed support or where dflt is stored
FunctionOK == Regular => \A i \in Degs : (ValueAt(i) # dflt) => (i \in SetOf(supp))
=============================================================================
