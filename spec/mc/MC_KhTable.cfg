CONSTANTS
  AbsN = 100
  AbsKh = 100
  MaxStrands = 3
  MaxLen = 2
  MaxDepth = 1
  MaxCross = 5
  ExtraRoots <- KnotRoots
SPECIFICATION MCSpec
INVARIANTS KhGhost EulerJones GhostWrithe GhostComps DiagramOK
VIEW View
CHECK_DEADLOCK FALSE
