CONSTANTS
  N = 4
SPECIFICATION Spec
INVARIANTS Acyclic Sound Complete
PROPERTY Terminates
CHECK_DEADLOCK FALSE
