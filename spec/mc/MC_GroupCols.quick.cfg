CONSTANTS
  N = 4
  EdgePoolCodes = {}
SPECIFICATION Spec
INVARIANTS Acyclic Sound Complete
PROPERTY Terminates
CHECK_DEADLOCK FALSE
