------------------------------ MODULE MC_Pivot ------------------------------
EXTENDS Pivot, TLC
\* the list obtained by peeling the final table in dependency order satisfies the result contract
RECURSIVE Order(_,_)
Order(p, S) == IF S = {} THEN <<>>
               ELSE LET k == CHOOSE k \in S : \A l \in S : ~DependsOn(p, l, k) IN <<p[k]>> \o Order(p, S \ {k})
ResultOK == Done => PivotResult(Order(piv, 1..Len(piv)))
\* maximality is not claimed by the property; soundness of the retry rule is (Acyclic)
=============================================================================
