CONSTANTS
  Wide = TRUE
SPECIFICATION Spec
INVARIANTS TypeOK OutcomeTotal ErrorNeverTable TableExitsZero
CHECK_DEADLOCK FALSE
