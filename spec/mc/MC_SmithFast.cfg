SPECIFICATION Spec
INVARIANT AllOK
CHECK_DEADLOCK FALSE
