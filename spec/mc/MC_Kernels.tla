----------------------------- MODULE MC_Kernels -----------------------------
(* The kernel contracts on complete small domains over the integers: they accept the answers of a
   reference implementation written from the textbook formulas (adjugate inverse, block formulas of
   the Schur complement and its transfer maps) and they determine the answer uniquely. *)
EXTENDS Kernels, TLC

V == {-1, 0, 1}
U == {-1, 1}
Upper3 == {Mat(3, 3, LAMBDA i, j : IF i = j THEN d[i] ELSE IF i < j THEN o[IF i = 1 THEN j - 1 ELSE 3] ELSE 0) :
              d \in [1..3 -> U], o \in [1..3 -> V]}
Minor(A, r, c) == Mat(A.m - 1, A.n - 1, LAMBDA i, j : A.a[IF i < r THEN i ELSE i + 1][IF j < c THEN j ELSE j + 1])
\* inverse of an integer matrix of determinant +-1: det * adjugate
RefInv(A) == LET d == MDet(RI, A) IN
             Mat(A.n, A.n, LAMBDA i, j : d * (IF (i + j) % 2 = 0 THEN 1 ELSE -1) * MDet(RI, Minor(A, j, i)))
Ys == {Mat(3, 2, LAMBDA i, j : IF j = 1 THEN c[i] ELSE i - 2) : c \in [1..3 -> V]}

SolveOK ==
    \A A \in Upper3 :
       /\ MSame(RI, MMul(RI, A, RefInv(A)), MId(RI, 3))
       /\ \A Y \in Ys : LET X == MMul(RI, RefInv(A), Y) IN
             /\ MSame(RI, MMul(RI, A, X), Y)                                    \* the contract accepts the reference
             /\ MSame(RI, MMul(RI, MTrans(X), MTrans(A)), MTrans(Y))            \* and the left variant on the transposes
             \* uniqueness: a perturbed answer is rejected
             /\ \A i \in 1..3 : ~MSame(RI, MMul(RI, A, [X EXCEPT !.a[i][1] = @ + 1]), Y)

\* M = [A B; C D] 3x3 with r = 2
Ms == {MBlocks(Mat(2, 2, LAMBDA i, j : IF i = j THEN d[i] ELSE IF i < j THEN o ELSE 0),
               Mat(2, 1, LAMBDA i, j : b[i]), Mat(1, 2, LAMBDA i, j : c[j]), Mat(1, 1, LAMBDA i, j : x)) :
          d \in [1..2 -> U], o \in V, b \in [1..2 -> V], c \in [1..2 -> V], x \in V}
SchurOK ==
    \A M \in Ms :
      LET A == MSubmat(M, 0, 2, 0, 2)  B == MSubmat(M, 0, 2, 2, 3)  C == MSubmat(M, 2, 3, 0, 2)  D == MSubmat(M, 2, 3, 2, 3)
          Ai == RefInv(A)  X == MMul(RI, Ai, B)  S == MSub(RI, D, MMul(RI, C, X))
          tr == [with |-> TRUE, fsrc |-> MConcat(MZero(RI, 1, 2), MId(RI, 1)), bsrc |-> MStack(MNeg(RI, X), MId(RI, 1)),
                 ftgt |-> MConcat(MNeg(RI, MMul(RI, C, Ai)), MId(RI, 1)), btgt |-> MStack(MZero(RI, 2, 1), MId(RI, 1))]
      IN /\ ENABLED Schur(RI, "upper", M, 2, S, X, tr, "x")
         \* a wrong complement or a transfer map with a sign slip is rejected
         /\ ~ENABLED Schur(RI, "upper", M, 2, [S EXCEPT !.a[1][1] = @ + 1], X, tr, "x")
         /\ (~MIsZero(RI, X)) => ~ENABLED Schur(RI, "upper", M, 2, S, X, [tr EXCEPT !.bsrc = MStack(X, MId(RI, 1))], "x")
         /\ (~MIsZero(RI, C)) => ~ENABLED Schur(RI, "upper", M, 2, S, X, [tr EXCEPT !.ftgt = MConcat(MMul(RI, C, Ai), MId(RI, 1))], "x")

\* direct sum: connectivity operator agrees with the definition on all 2x3 patterns
Pats == {Mat(2, 3, LAMBDA i, j : z[i][j]) : z \in [1..2 -> [1..3 -> {0, 1}]]}
ConnOK == \A Zp \in Pats : Connected(Zp) <=>
            /\ \A j \in 1..3 : \E i \in 1..2 : Zp.a[i][j] = 1
            /\ \A i \in 1..2 : \E j \in 1..3 : Zp.a[i][j] = 1
            /\ \E j \in 1..3 : Zp.a[1][j] = 1 /\ Zp.a[2][j] = 1

MInit == Init
MNext == FALSE /\ UNCHANGED kvars
MSpec == MInit /\ [][MNext]_kvars
AllOK == SolveOK /\ SchurOK /\ ConnOK
=============================================================================
