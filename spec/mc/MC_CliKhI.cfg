CONSTANTS
  Wide = FALSE
SPECIFICATION Spec
INVARIANTS ITypeOK IOutcomeTotal IErrorNeverTable ITableExitsZero SSOK MirrorLaw
CHECK_DEADLOCK FALSE
