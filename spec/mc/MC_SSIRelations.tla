--------------------------- MODULE MC_SSIRelations ---------------------------
(* Exhaustive model of the relations C19 states about the pair (s0, s1): every history of observations, re-listings
   of the crossings, mirrorings and changes of knot over a small range of values.  An observation is enabled iff the
   pair is well formed and equals the prediction; the model shows that the predictions stay well formed, that
   mirroring is an involution on them, and (TargetReachable) that the interesting states are reachable: a pair with
   s0 < s1 whose mirror prediction differs from the plain negation. *)
EXTENDS SSIRelations, FiniteSets

CONSTANTS R, Keys
Range == (-R)..R

VARIABLES hist      \* independent bookkeeping: the predictions as seen from the unmirrored knot, and the parity of mirrorings
svars == <<ss, hist>>
Pairs == {p \in Range \X Range : PairOK(p)}

Init    == SInit /\ hist = [orig |-> <<>>, par |-> 0]
Took(a) == PrintT(<<"ACT", a>>)
Observe == \E k \in Keys, p \in Pairs :
              /\ SObserve(k, p)
              /\ hist' = [hist EXCEPT !.orig = (k :> (IF hist.par = 0 THEN p ELSE MirrorPair(p))) @@ hist.orig]
              /\ Took("Observe")
Reorder == SReorder /\ UNCHANGED hist /\ Took("Reorder")
MirrorA == SMirror /\ hist' = [hist EXCEPT !.par = 1 - hist.par] /\ Took("Mirror")
NewKnot == SNew /\ hist' = [orig |-> <<>>, par |-> 0] /\ Took("NewKnot")
Next    == Observe \/ Reorder \/ MirrorA \/ NewKnot
Spec    == Init /\ [][Next]_svars

\* mirroring is an involution on the predictions, and an odd number of mirrorings negates and swaps every pair
MirrorInvolution == /\ DOMAIN ss = DOMAIN hist.orig
                    /\ \A k \in DOMAIN ss : ss[k] = IF hist.par = 0 THEN hist.orig[k] ELSE MirrorPair(hist.orig[k])
\* an observation different from the prediction is never enabled
Refuses == \A k \in DOMAIN ss : \A p \in Pairs : p # ss[k] => ~ENABLED SObserve(k, p)
\* a pair violating the order or the parity is never enabled
RefusesBad == \A k \in Keys : \A p \in (Range \X Range) \ Pairs : ~ENABLED SObserve(k, p)
\* mirror of a well-formed pair is well formed, negates and swaps
ASSUME \A p \in Pairs : PairOK(MirrorPair(p)) /\ MirrorPair(MirrorPair(p)) = p /\ MirrorPair(p)[1] = -p[2] /\ MirrorPair(p)[2] = -p[1]
ASSUME MirrorPair(<<0, 2>>) = <<-2, 0>> /\ MirrorPair(<<2, 2>>) = <<-2, -2>>
=============================================================================
