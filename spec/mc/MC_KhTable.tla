----------------------------- MODULE MC_KhTable -----------------------------
(* Exhaustive model for C02 on a small family.  The tables are those of the DEFINITION (KhSmall.tla: cube of
   resolutions, integer Smith form): kt is bound at the root and afterwards changed only the way property C02
   says (kept by isotopies and by the global orientation reversal, dualised by mirror); the invariant KhGhost
   demands that it is the definition's table of every diagram reached.  So TLC proves, on every diagram of the
   family, that the spec's own Khovanov homology (Z unreduced, F2 unreduced, Z reduced for knots) is invariant
   under: conjugation, stabilisation (both signs), sigma sigma^-1 insertion (R2), the braid relation (R3), far
   commutation on every braid word of length <= MaxLen on <= MaxStrands strands (+ the extra roots); the four
   R1 kinks on every edge; the PD-level R2 move for every pair of edges on a common face (over and under);
   renumbering; reordering; reversal; and that mirror sends free (i,j) -> (-i,-j), torsion (i,j) -> (1-i,-j).
   EulerJones ties the tables to Jones.tla's state sum (an independent definition). *)
EXTENDS KhTable

CONSTANTS MaxStrands, MaxLen, MaxDepth, MaxCross, ExtraRoots

VARIABLE depth
mcvars == <<dg, wr, nc, out, res, jp, bw, kt, depth>>

Letters(n) == {g \in -(n-1)..(n-1) : g # 0}
Words == UNION {UNION {{w \in [1..k -> Letters(n)] : NoFreeLoop(n, w)} : k \in 1..MaxLen} : n \in 2..MaxStrands}
StrandsOf(w) == MaxOfSet({AbsI(w[k]) : k \in 1..Len(w)}) + 1
NoExtra   == {}
Fig8Root  == {<<3, <<1, -2, 1, -2>>>>}                                       \* the figure-eight knot as a 3-braid
KnotRoots == {<<2, <<1, 1, 1>>>>, <<2, <<-1, -1, -1>>>>, <<3, <<1, 2, 1, 2>>>>} \cup Fig8Root   \* both trefoils (one also as a 3-braid: braid relations apply) and the figure-eight knot
Roots == {<<StrandsOf(w), w>> : w \in Words} \cup ExtraRoots

Trefoil == <<<<1, 4, 2, 5>>, <<3, 6, 4, 1>>, <<5, 2, 6, 3>>>>                 \* left-handed
Figure8 == <<<<4, 2, 5, 1>>, <<8, 6, 1, 5>>, <<6, 3, 7, 4>>, <<2, 7, 3, 8>>>>
Hopf    == <<<<4, 1, 3, 2>>, <<2, 3, 1, 4>>>>                                  \* negative

T(D, ring, base) == NormOfRowSet(KhRows(D, ring, base))
Tab(rows) == Norm(rows)
ASSUME LiteratureValues ==
    \* Bar-Natan's tables (left-handed trefoil = mirror of his 3_1; the figure-eight knot; the Hopf link)
    /\ T(FromPD(Trefoil), "Z", NoBase) = Tab(<<<<-3, -9, 1, <<>>>>, <<-2, -7, 0, <<2>>>>, <<-2, -5, 1, <<>>>>, <<0, -3, 1, <<>>>>, <<0, -1, 1, <<>>>>>>)
    /\ T(Mirror(FromPD(Trefoil)), "Z", NoBase) = Tab(<<<<3, 9, 1, <<>>>>, <<3, 7, 0, <<2>>>>, <<2, 5, 1, <<>>>>, <<0, 3, 1, <<>>>>, <<0, 1, 1, <<>>>>>>)
    /\ T(FromPD(Trefoil), "Z", 1) = Tab(<<<<-3, -8, 1, <<>>>>, <<-2, -6, 1, <<>>>>, <<0, -2, 1, <<>>>>>>)
    /\ T(FromPD(Trefoil), "F2", NoBase) = Tab(<<<<-3, -9, 1, <<>>>>, <<-3, -7, 1, <<>>>>, <<-2, -7, 1, <<>>>>, <<-2, -5, 1, <<>>>>, <<0, -3, 1, <<>>>>, <<0, -1, 1, <<>>>>>>)
    /\ T(FromPD(Figure8), "Z", NoBase) = Tab(<<<<-2, -5, 1, <<>>>>, <<-1, -3, 0, <<2>>>>, <<-1, -1, 1, <<>>>>, <<0, -1, 1, <<>>>>, <<0, 1, 1, <<>>>>,
                                               <<1, 1, 1, <<>>>>, <<2, 3, 0, <<2>>>>, <<2, 5, 1, <<>>>>>>)
    /\ T(FromPD(Hopf), "Z", NoBase) = Tab(<<<<-2, -6, 1, <<>>>>, <<-2, -4, 1, <<>>>>, <<0, -2, 1, <<>>>>, <<0, 0, 1, <<>>>>>>)
    /\ T(FromPD(<<<<0, 0, 1, 1>>>>), "Z", NoBase) = Tab(<<<<0, -1, 1, <<>>>>, <<0, 1, 1, <<>>>>>>)
    /\ T(FromPD(<<<<0, 1, 1, 0>>>>), "Q", NoBase) = Tab(<<<<0, -1, 1, <<>>>>, <<0, 1, 1, <<>>>>>>)
    /\ MirrorDual(T(FromPD(Trefoil), "Z", NoBase), T(Mirror(FromPD(Trefoil)), "Z", NoBase))
    /\ ~MirrorDual(T(FromPD(Trefoil), "Z", NoBase), T(FromPD(Trefoil), "Z", NoBase))
    /\ MirrorDual(T(FromPD(Figure8), "Z", NoBase), T(FromPD(Figure8), "Z", NoBase))          \* amphichiral
    /\ DSquaredZero(Cube(FromPD(Figure8), 0, 0, NoBase)) /\ DSquaredZero(Cube(FromPD(Trefoil), 2, 3, NoBase))
ASSUME NormalForm ==
    /\ PrimePowers(12) = <<4, 3>> /\ PrimePowers(-8) = <<8>> /\ PrimePowers(6) = <<2, 3>> /\ PrimePowers(49) = <<49>> /\ PrimePowers(2) = <<2>>
    /\ Norm(<<<<0, 0, 1, <<6>>>>>>) = Norm(<<<<0, 0, 1, <<3, -2>>>>>>)                       \* Z/6 = Z/2 + Z/3
    /\ Norm(<<<<0, 0, 1, <<4>>>>>>) # Norm(<<<<0, 0, 1, <<2, 2>>>>>>)
    /\ Norm(<<<<0, 0, 0, <<>>>>, <<1, 1, 2, <<>>>>>>) = Norm(<<<<1, 1, 2, <<>>>>>>)
    /\ Dual(Dual(Norm(<<<<1, 3, 2, <<2, 4>>>>>>))) = Norm(<<<<1, 3, 2, <<2, 4>>>>>>)

MCSlots(D) == {<<"Z", 1, FALSE>>, <<"F2", 1, FALSE>>} \cup (IF Cardinality(Components(D)) = 1 THEN {<<"Z", 1, TRUE>>} ELSE {})
Depth(d) == depth' = d
MCInit == KInit /\ depth = 0

Start ==
    /\ depth = 0 /\ dg = <<>>
    /\ \E r \in Roots : LET D == Closure(r[1], r[2]) IN
          /\ Fresh2(D, ExpSum(r[2]), CycleCount(r[1], r[2]), r)
          /\ kt' = [s \in MCSlots(D) |-> DefTable(D, s)]
    /\ Depth(1) /\ UNCHANGED jp

CanMove == depth >= 1 /\ depth <= MaxDepth
WordMoves(n, w) ==
       {[kind |-> "conj"]}
  \cup {[kind |-> "stab", s |-> s] : s \in {1, -1}}
  \cup {[kind |-> "pair", k |-> k, g |-> g] : k \in 0..Len(w), g \in Letters(n)}
  \cup {[kind |-> "comm", k |-> k] : k \in {k \in 1..Len(w) : CanCommute(w, k)}}
  \cup {[kind |-> "braid", k |-> k] : k \in {k \in 1..Len(w) : CanBraidRel(w, k)}}
ApplyMove(mv, n, w) ==
    CASE mv.kind = "conj"  -> <<n, Conj(w)>>
      [] mv.kind = "stab"  -> <<n + 1, Stabilise(n, w, mv.s)>>
      [] mv.kind = "pair"  -> <<n, InsertPair(w, mv.k, mv.g)>>
      [] mv.kind = "comm"  -> <<n, Commute(w, mv.k)>>
      [] mv.kind = "braid" -> <<n, BraidRel(w, mv.k)>>
Keep == kt' = kt /\ UNCHANGED jp
MvWord ==
    /\ CanMove /\ bw[1] >= 2
    /\ \E mv \in WordMoves(bw[1], bw[2]) : LET r == ApplyMove(mv, bw[1], bw[2]) IN
          /\ Len(r[2]) <= MaxCross
          /\ MWord(mv, r[1], r[2], ClosureCode(r[1], r[2]))
    /\ Keep /\ Depth(depth + 1)
MvMirror   == CanMove /\ MMirror /\ kt' = DualAll(kt) /\ UNCHANGED jp /\ Depth(depth + 1)
MvReverse  == CanMove /\ Len(dg) > 0 /\ MReverse /\ Keep /\ Depth(depth + 1)
MvRenumber == CanMove /\ MRenumber([e \in Edges(dg) |-> MaxEdge(dg) + 7 - e]) /\ Keep /\ Depth(depth + 1)
MvReorder  == CanMove /\ Len(dg) > 1 /\ MReorder([i \in 1..Len(dg) |-> (i % Len(dg)) + 1]) /\ Keep /\ Depth(depth + 1)
MvKink     == /\ CanMove /\ Len(dg) < MaxCross
              /\ \E x \in Edges(dg), k \in KinkKinds : MKink(x, k)
              /\ Keep /\ Depth(depth + 1)
MvR2       == /\ CanMove /\ Len(dg) + 2 <= MaxCross
              /\ \E x \in Edges(dg), y \in Edges(dg), sx \in {"L", "R"}, sy \in {"L", "R"}, over \in BOOLEAN : MR2(x, sx, y, sy, over)
              /\ Keep /\ Depth(depth + 1)

MCNext == Start \/ MvWord \/ MvMirror \/ MvReverse \/ MvRenumber \/ MvReorder \/ MvKink \/ MvR2
MCSpec == MCInit /\ [][MCNext]_mcvars

\* the Euler characteristic of the integral unreduced table is the state-sum polynomial of Jones.tla
EulerJones == (Len(dg) > 0 /\ <<"Z", 1, FALSE>> \in DOMAIN kt) => PEq(EulerOfNorm(kt[<<"Z", 1, FALSE>>]), Jones(dg))
\* an R2 result is a valid diagram (checked for every state reached through MvR2 by DiagramOK) 

View == <<dg, bw, kt, depth>>
=============================================================================
