CONSTANTS
  Dim = 2
SPECIFICATION MSpec
INVARIANT TypeOK
INVARIANT FragmentOK
INVARIANT Deterministic
INVARIANT FunctionOK
CHECK_DEADLOCK FALSE
