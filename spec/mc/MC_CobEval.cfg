CONSTANTS
  MaxG = 1
  MaxD = 1
  Leftmost = FALSE
  SG = 3
  SD = 4
SPECIFICATION Spec
INVARIANTS ValueOK NormalOK Bounded DeadOK
VIEW MView
CHECK_DEADLOCK FALSE
