CONSTANTS
  NReg = 2
  Cap = 3
SPECIFICATION Spec
CONSTRAINT Bounded
VIEW RegView
INVARIANTS CanonInv EqInv ExpInv LookInv LeadInv
CHECK_DEADLOCK FALSE
