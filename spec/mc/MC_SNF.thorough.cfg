CONSTANTS
  ColSet = {2, 3}
  XMax = 8
  YMax = 16
SPECIFICATION Spec
INVARIANTS AllOK
CHECK_DEADLOCK FALSE
