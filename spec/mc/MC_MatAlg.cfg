SPECIFICATION MSpec
INVARIANTS TransShape LawsOnce
CONSTRAINT Bound
CHECK_DEADLOCK FALSE
