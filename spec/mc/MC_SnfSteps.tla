---------------------------- MODULE MC_SnfSteps ----------------------------
(* Every elementary operation preserves T = P A Q, P Pi = I, Q Qi = I: all 2x2 / 2x3 integer matrices with
   entries -1..1 as input, all operations with coefficients -2..2, all sequences of up to Depth operations. *)
EXTENDS SnfSteps, TLC
CONSTANT Depth
VARIABLE n
V == {-1, 0, 1}
Cf == {-2, -1, 1, 2}
Inputs == UNION {{[m |-> 2, n |-> c, a |-> a] : a \in [1..2 -> [1..c -> V]]} : c \in 2..3}
MInit == /\ n = 0 /\ \E A \in Inputs : SInit(RI, A)
MNext == /\ n < Depth /\ n' = n + 1
         /\ \/ SwapR(1, 2) \/ \E j, k \in 1..A0.n : j < k /\ SwapC(j, k)
            \/ \E i \in 1..2 : MulR(RI, i, -1, -1)
            \/ \E j \in 1..A0.n : MulC(RI, j, -1, -1)
            \/ \E i, k \in 1..2, x \in Cf : AddR(RI, i, k, x)
            \/ \E j, k \in 1..A0.n, x \in Cf : AddC(RI, j, k, x)
            \/ \E a, b, c, d \in {-2, -1, 0, 1, 2} : BlockR(RI, 1, 2, a, b, c, d)
            \/ \E a, b, c, d \in {-1, 0, 1, 2} : BlockC(RI, 1, 2, a, b, c, d)
MSpec == MInit /\ [][MNext]_<<A0, T, P, Pi, Q, Qi, n>>
Inv == StepInv(RI)
\* the diagonal fix-up step: for x, y > 0 with d = gcd = s x + t y,
\* [1 1; -t(y/d) s(x/d)] diag(x, y) [s -(y/d); t (x/d)] = diag(d, x y / d), both blocks unimodular
DiagFix == \A x \in 1..6, y \in 1..6 : \E s \in -6..6, t \in -6..6 :
              LET d == IGcd(x, y)  a == x \div d  b == y \div d IN
              /\ s * x + t * y = d
              /\ 1 * (s * a) - 1 * (-(t * b)) = 1                        \* det of the left block
              /\ s * a - (-b) * t = 1                                     \* det of the right block
              /\ LET L == Mat(2, 2, LAMBDA i, j : IF i = 1 THEN 1 ELSE IF j = 1 THEN -(t * b) ELSE s * a)
                     Rr == Mat(2, 2, LAMBDA i, j : IF j = 1 THEN (IF i = 1 THEN s ELSE t) ELSE (IF i = 1 THEN -b ELSE a))
                     Dg == Mat(2, 2, LAMBDA i, j : IF i # j THEN 0 ELSE IF i = 1 THEN x ELSE y)
                 IN MMul(RI, MMul(RI, L, Dg), Rr) = Mat(2, 2, LAMBDA i, j : IF i # j THEN 0 ELSE IF i = 1 THEN d ELSE (x * y) \div d)
DiagFixOnce == n > 0 \/ DiagFix
=============================================================================
