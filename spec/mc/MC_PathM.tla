------------------------------ MODULE MC_PathM ------------------------------
(* Exhaustive: both registers range over every simple path (arc or circle) with labels 1..K and length <= L; every action.
   Checked in every state (so for every ordered pair of such paths): unori_eq is an equivalence compatible with reversal and
   rotation, gluing inside the domain yields a simple path / cycle on the union of the labels, closed exactly when both
   ends are shared, symmetric up to orientation; reduce keeps ends, kind and the least label, and is idempotent. *)
EXTENDS PathM, TLC
CONSTANTS K, L
Labels  == 1..K
SimpleSeqs == {s \in UNION {[1..n -> Labels] : n \in 1..L} : NoRep(s)}
Paths   == {Mk(s, c) : s \in SimpleSeqs, c \in BOOLEAN}
MInit == p \in Paths /\ q \in Paths
ANewP == \E a \in Paths : NewP(a.edges, a.closed)
ANewQ == \E a \in Paths : NewQ(a.edges, a.closed)
ANewPanics == NewPanics(<<>>)
ASwap == Swap
AObserve == \/ LenIs(Len(p.edges)) \/ EdgesIs(p.edges, p.closed) \/ \E e \in Labels, o \in BOOLEAN : ContainsIs(e, o)
            \/ \E o \in Labels : MinEdgeIs(o) \/ EndsIs(IF IsArc(p) THEN <<First(p), Last(p)>> ELSE <<>>)
            \/ KindIs(IsArc(p), p.closed) \/ ShownIs(Shown(p))
AConnectable == \E o, b \in BOOLEAN : ConnectableIs(o, b)
AUnoriEq == \E o \in BOOLEAN : UnoriEqIs(o)
AReduce  == Reduce(Reduced(p))
AConnect == Len(Glued(p, q).edges) <= L /\ Connect(Glued(p, q))
AConnectPanics == ConnectPanics
MNext == ANewP \/ ANewQ \/ ANewPanics \/ ASwap \/ AObserve \/ AConnectable \/ AUnoriEq \/ AReduce \/ AConnect \/ AConnectPanics
MSpec == MInit /\ [][MNext]_pvars

TypeOK == p \in Paths /\ q \in Paths
EquivOK == /\ UnoriEq(p, p) /\ (UnoriEq(p, q) <=> UnoriEq(q, p))
           /\ UnoriEq(p, Mk(Rev(p.edges), p.closed))
           /\ p.closed => \A r \in 0..Len(p.edges)-1 : UnoriEq(p, Mk(Rot(p.edges, r), TRUE))
           /\ UnoriEq(p, q) => (SetOf(p.edges) = SetOf(q.edges) /\ MinOf(SetOf(p.edges)) = MinOf(SetOf(q.edges)))
           /\ \A c \in Paths : (UnoriEq(p, q) /\ UnoriEq(q, c)) => UnoriEq(p, c)
GlueLaws == GlueOK(p, q) =>
            LET g == Glued(p, q) IN
            /\ Simple(g) /\ SetOf(g.edges) = SetOf(p.edges) \cup SetOf(q.edges)
            /\ g.closed = (EndSet(p) = EndSet(q) /\ Len(p.edges) + Len(q.edges) > 2)
            /\ GlueOK(q, p) /\ UnoriEq(g, Glued(q, p))
            /\ ~g.closed => (EndSet(g) = (EndSet(p) \cup EndSet(q)) \ (IF Len(p.edges) = 1 \/ Len(q.edges) = 1 THEN {} ELSE EndSet(p) \cap EndSet(q)))
ConnectableLaws == /\ BothEnds(p, q) => Connectable(p, q)
                   /\ Connectable(p, q) = Connectable(q, p)
                   /\ Connectable(p, q) => (IsArc(p) /\ IsArc(q))
ReduceLaws == LET r == Reduced(p) IN
              /\ r.closed = p.closed /\ Len(r.edges) <= 3 /\ Simple(r)
              /\ MinOf(SetOf(r.edges)) = MinOf(SetOf(p.edges))
              /\ IsArc(p) => (First(r) = First(p) /\ Last(r) = Last(p))
              /\ Reduced(r) = r
              /\ SetOf(r.edges) \subseteq SetOf(p.edges)
=============================================================================
