----------------------------- MODULE MC_BitSeq -----------------------------
(* Exhaustive model of BitSeq for a small MaxLen: every register state, every
   action, every argument (valid, boundary and exceeding). *)
EXTENDS BitSeq, TLC

AllSeqs(n) == UNION {[1..k -> Bit] : k \in 0..n}
Words      == [1..WordLen -> Bit]
Idx        == 0 .. MaxLen+1
Chars      == UNION {[1..k -> {0,1,2}] : k \in 0..2} \cup {[i \in 1..MaxLen+1 |-> 1]}

Next ==
    \/ \E r \in Regs, w \in Words, n \in Idx : New(r, w, n)
    \/ \E r \in Regs, w \in Words, n \in Idx : NewRev(r, w, n)
    \/ \E r \in Regs : Empty(r)
    \/ \E r \in Regs, n \in Idx : MkZeros(r, n)
    \/ \E r \in Regs, n \in Idx : MkOnes(r, n)
    \/ \E r \in Regs, s \in AllSeqs(MaxLen+1) : FromIter(r, s)
    \/ \E r \in Regs, b \in Bit : FromBit(r, b)
    \/ \E r \in Regs, c \in Chars : Parse(r, c)
    \/ \E r, r2 \in Regs : Copy(r, r2)
    \/ \E r \in Regs, b \in Bit : Push(r, b)
    \/ \E r, r2 \in Regs : AppendReg(r, r2)
    \/ \E r \in Regs, i \in Idx, b \in Bit : InsertBit(r, i, b)
    \/ \E r \in Regs, i \in Idx : RemoveBit(r, i)
    \/ \E r \in Regs, i \in Idx, b \in Bit : SetBit(r, i, b)
    \/ \E r, r2 \in Regs, i \in Idx : Sub(r, r2, i)
    \/ \E r, r2 \in Regs, k \in {"push","insert","remove","set"}, i \in Idx, b \in Bit : Edit(r, r2, k, i, b)
    \/ \E r \in Regs : LenOf(r)
    \/ \E r \in Regs : IsEmpty(r)
    \/ \E r \in Regs : AsWord(r)
    \/ \E r \in Regs : WeightOf(r)
    \/ \E r \in Regs : Iter(r)
    \/ \E r \in Regs : Display(r)
    \/ \E r \in Regs, i \in Idx : IndexAt(r, i)
    \/ \E r, r2 \in Regs : IsSub(r, r2)
    \/ \E r, r2 \in Regs : Compare(r, r2)
    \/ \E r, r2 \in Regs : Equal(r, r2)
    \/ \E n \in Idx, k \in 0..3 : Generate(n, k)

Spec == Init /\ [][Next]_vars

\* -- properties of the model itself
OrderOK == OrderAxioms(AllSeqs(3))

\* list-of-booleans cross-checks of the operators (the "oracle" is checked against
\* independent characterisations)
OpsOK ==
    \A s \in AllSeqs(3) :
       /\ Weight(s) = Cardinality({i \in 1..Len(s) : s[i] = 1})
       /\ \A i \in 0..Len(s), b \in Bit :
             /\ Len(InsertAt0(s,i,b)) = Len(s)+1
             /\ RemoveAt0(InsertAt0(s,i,b), i) = s
             /\ InsertAt0(s,i,b)[i+1] = b
       /\ \A l \in 0..Len(s) : IsPre(Prefix(s,l), s)
       /\ \A t \in AllSeqs(3) : IsPre(s,t) <=> (\E u \in AllSeqs(3) : t = s \o u)

\* a rejected call never changes a register
RejKeeps == [][res' = "rej" => reg' = reg]_vars
\* the view hides the observation so that the state count is that of the registers
RegView == <<reg, res>>
=============================================================================
