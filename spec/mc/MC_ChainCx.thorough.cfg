CONSTANTS
  MaxStrands = 3
  MaxLen = 3
SPECIFICATION MCSpec
INVARIANTS Accepts NoSignCaught SwapCaught
CHECK_DEADLOCK FALSE
