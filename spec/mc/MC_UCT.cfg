CONSTANTS
  V <- VTiny
  DiagVals = {0, 1, 2, 3, 6}
SPECIFICATION MCSpec
INVARIANTS Accepts Sensitive Coherent
CHECK_DEADLOCK FALSE
