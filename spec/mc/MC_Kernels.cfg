SPECIFICATION MSpec
INVARIANTS AllOK
CHECK_DEADLOCK FALSE
