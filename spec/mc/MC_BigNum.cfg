SPECIFICATION Spec
INVARIANTS NativeOK AxiomsOK
CHECK_DEADLOCK FALSE
