CONSTANTS
  K = 5
  AL = 3
SPECIFICATION MSpec
INVARIANT Inv
CHECK_DEADLOCK FALSE
