----------------------------- MODULE MC_KhICone -----------------------------
(* Exhaustive model for C19 on the small members of the built-in table.
   State: the diagram (from a table code, possibly mirrored, its crossings re-listed in every order (n <= 3) or in
   the cyclic shifts and transpositions (n >= 4), the second symmetric numbering), the table kt of predicted
   ranks, the pair table ss.  In every reachable state, for every configuration (h, t) in F2 x F2, unreduced and
   (t = 0) reduced:
     - the involution on the cube is well defined (crossings, states, circles, base circle), tau is a chain map,
       d.d = 0 on the cube and on the cone of 1 + tau, the reduced generators span a subcomplex, h = t = 0 is
       q-homogeneous                                                              (DefinitionSound)
     - the ranks predicted by the history (kt: set when the diagram is loaded, KEPT by every re-listing of the
       crossings) are the ranks of the cone / cube of the diagram now held         (KtIsDefinition)
     - the definition's own cone complex, written in the format in which the implementation reports complexes,
       is accepted by the observer contract (over F2 and, with h = H, over F2[H]: d.d = 0 there and both
       specialisations have the homology of the direct definition)                (ContractSatisfiable)
     - graded Euler characteristic of the cube = the Kauffman state sum of Jones.tla (ties the degree conventions
       to C04), mirror duality of the involutive ranks over the field F2, sparse rank = LinAlg!RankP.
   Literature values pin the absolute numbers. *)
EXTENDS KhICone, KhITable

CONSTANTS Family,       \* names of the table knots explored
          Mirrors,      \* subset of BOOLEAN: load the diagram as it is (FALSE) and / or its mirror image (TRUE)
          MaxDepth,     \* number of moves after loading
          DeepLevel,    \* 1: soundness facts; 2: also the rank cross-check against LinAlg and the observers' contract
          CheckMirror   \* evaluate the mirror-duality relation in every state

J == INSTANCE Jones WITH jp <- 0, bw <- 0

VARIABLES depth, nm
mvars == <<dg, wr, nc, out, res, kt, ss, depth, nm>>

Cfgs == {<<0, 0, FALSE>>, <<1, 0, FALSE>>, <<0, 1, FALSE>>, <<1, 1, FALSE>>, <<0, 0, TRUE>>, <<1, 0, TRUE>>}
DefKeys == {<<f, c[1], c[2], c[3]>> : f \in {"khi", "kh"}, c \in Cfgs} \cup {<<"khibi", 0, 0, r>> : r \in BOOLEAN}
\* one evaluation of the definition per configuration (an explicit tuple: TLC evaluates its components once)
CfgIdx(c) == CASE c = <<0, 0, FALSE>> -> 1 [] c = <<1, 0, FALSE>> -> 2 [] c = <<0, 1, FALSE>> -> 3
               [] c = <<1, 1, FALSE>> -> 4 [] c = <<0, 0, TRUE>> -> 5 [] c = <<1, 0, TRUE>> -> 6
EvalCfgs(D, deep) == <<KhIEval(D, 0, 0, FALSE, deep), KhIEval(D, 1, 0, FALSE, deep), KhIEval(D, 0, 1, FALSE, deep),
                       KhIEval(D, 1, 1, FALSE, deep), KhIEval(D, 0, 0, TRUE, deep), KhIEval(D, 1, 0, TRUE, deep)>>
TableOf(ev) == [k \in DefKeys |-> ev[CfgIdx(<<k[2], k[3], k[4]>>)][k[1]]]
\* (the set constructor binds the tuple to a VALUE: inside an action TLC would otherwise re-evaluate it at every use)
DefTable(D) == CHOOSE r \in {TableOf(ev) : ev \in {ev \in {EvalCfgs(D, 0)} : Assert(\A i \in 1..6 : ev[i].sound, <<"definition not sound on", D>>)}} : TRUE

Took(a) == PrintT(<<"ACT", a>>)          \* action census for the driver (TLC's -coverage cannot be used on evaluation-heavy models)
\* one initial state per (table entry, mirror?): the first step loads it (so that TLC's workers share the loading work)
MCInit == KInit /\ depth = 0 /\ nm \in Family \X Mirrors

StartLoad == /\ depth = 0 /\ dg = <<>>
             /\ LET D == DiagramOf(CodeOf(nm[1]), nm[2]) IN
                   /\ SymValid(D)
                   /\ dg' = D /\ KQuiet /\ SNew /\ UNCHANGED nm
                   /\ kt' = DefTable(D)
             /\ depth' = 1 /\ Took("StartLoad")

CanMove == depth >= 1 /\ depth <= MaxDepth
Perms(n) == {pi \in [1..n -> 1..n] : IsPermOf(pi, n)}
SomePerms(n) == IF n <= 3 THEN Perms(n) \ {[i \in 1..n |-> i]}
                ELSE {[i \in 1..n |-> ((i + s - 1) % n) + 1] : s \in 1..(n - 1)}
                     \cup {[i \in 1..n |-> IF i = a THEN a + 1 ELSE IF i = a + 1 THEN a ELSE i] : a \in 1..(n - 1)}
MvReorder == CanMove /\ (\E pi \in SomePerms(Len(dg)) : IReorder(pi)) /\ depth' = depth + 1 /\ UNCHANGED nm /\ Took("MvReorder")
MvMirror  == /\ CanMove /\ dg' = Mirror(dg) /\ KQuiet /\ SMirror /\ kt' = DefTable(dg')
             /\ depth' = depth + 1 /\ UNCHANGED nm /\ Took("MvMirror")
MvRotate  == /\ CanMove /\ dg' = Renumber(dg, RotateMap(dg)) /\ KQuiet /\ SNew /\ kt' = DefTable(dg')
             /\ depth' = depth + 1 /\ UNCHANGED nm /\ Took("MvRotate")

MCNext == StartLoad \/ MvReorder \/ MvMirror \/ MvRotate
MCSpec == MCInit /\ [][MCNext]_mvars

\* ------------------------------------------------------------------ invariants
\* (one evaluation of the definition per configuration and state is shared by all parts; a failing part is named)
Loaded == Len(dg) > 0
SymOK == Loaded => SymValid(dg)
Part(name, b) == b \/ (PrintT(<<"INVARIANT-PART-FAILED", name, nm, dg>>) /\ FALSE)

DefinitionSound(ev) == \A c \in Cfgs : ev[CfgIdx(c)].sound /\ ev[CfgIdx(c)].deep
\* the prediction kept by the history of moves is the definition on the diagram now held
KtIsDefinition(ev)  == kt = TableOf(ev)
\* the definition's own cone, in the observers' format, satisfies the observers' contract; so does the cone over F2[H]
ContractSatisfiable(ev) == DeepLevel >= 2 =>
    /\ \A c \in Cfgs : LET r == ev[CfgIdx(c)] IN
          /\ FieldCxOK(r.cx, r.hom)
          /\ SpecHom(r.cx, 0) = r.khi
          /\ KhIAnswerOK(c[1], c[2], c[3], r.cx, r.hom)
    /\ \A red \in BOOLEAN : LET r == KhIEval(dg, 2, 0, red, 2) IN
          /\ EntriesOK(r.cx) /\ DDZero(r.cx) /\ ~ConstEntries(r.cx)
          /\ \A c \in {0, 1} : SpecHom(r.cx, c) = ev[CfgIdx(<<c, 0, red>>)].khi
\* Euler characteristic of the chain groups (= of the homology) is the Jones polynomial of C04
EulerIsJones(ev) ==
    /\ J!PEq(J!Euler(ev[1].euler), J!Jones(dg))
    /\ J!PEq(J!PMul(J!Euler(ev[5].euler), J!Q0), J!Jones(dg))
\* bigraded ranks refine the total ones
BigradedRefines(ev) == \A red \in BOOLEAN : LET r == ev[CfgIdx(<<0, 0, red>>)] IN
    /\ \A x \in r.khi : x[2] = SumRanks(r.khibi, x[1])
    /\ \A x \in r.kh  : x[2] = SumRanks(r.khbi, x[1])
\* over a field the complex of the mirror image is the dual complex and tau goes to its transpose:
\* Kh^i(mirror) = Kh^(-i), KhI^i(mirror) = KhI^(1-i)
MirrorDuality(ev) == CheckMirror => \A c \in Cfgs :
    LET a == ev[CfgIdx(c)]  b == KhIRanks(Mirror(dg), c[1], c[2], c[3]) IN
    /\ b.kh  = {<<-x[1], x[2]>> : x \in a.kh}
    /\ b.khi = {<<1 - x[1], x[2]>> : x \in a.khi}

Checked == Loaded => \A ev \in {EvalCfgs(dg, DeepLevel)} :
    /\ Part("DefinitionSound", DefinitionSound(ev))
    /\ Part("KtIsDefinition", KtIsDefinition(ev))
    /\ Part("ContractSatisfiable", ContractSatisfiable(ev))
    /\ Part("EulerIsJones", EulerIsJones(ev))
    /\ Part("BigradedRefines", BigradedRefines(ev))
    /\ Part("MirrorDuality", MirrorDuality(ev))

\* ------------------------------------------------------------------ literature values
Tab(nme, h, t, red) == KhIRanks(FromPD(CodeOf(nme)), h, t, red)
ASSUME LiteratureValues ==
    \* Kh(3_1; F2) (right-handed trefoil, Bar-Natan's table reduced mod 2) and its involutive refinement (Sano)
    /\ Tab("3_1", 0, 0, FALSE).kh  = {<<0, 2>>, <<2, 2>>, <<3, 2>>}
    /\ Tab("3_1", 0, 0, FALSE).khi = {<<0, 2>>, <<1, 2>>, <<2, 2>>, <<3, 4>>, <<4, 2>>}
    /\ Tab("3_1", 0, 0, FALSE).khbi = {<<0, 1, 1>>, <<0, 3, 1>>, <<2, 5, 1>>, <<2, 7, 1>>, <<3, 7, 1>>, <<3, 9, 1>>}
    /\ Tab("3_1", 0, 0, TRUE).kh   = {<<0, 1>>, <<2, 1>>, <<3, 1>>}
    \* Bar-Natan / Lee type deformations of a knot over F2: two (one reduced) generators in degree 0, doubled by the cone
    /\ Tab("3_1", 1, 0, FALSE).kh  = {<<0, 2>>} /\ Tab("3_1", 1, 0, FALSE).khi = {<<0, 2>>, <<1, 2>>}
    /\ Tab("3_1", 1, 0, TRUE).kh   = {<<0, 1>>} /\ Tab("3_1", 1, 0, TRUE).khi  = {<<0, 1>>, <<1, 1>>}
    \* figure-eight: Kh over F2 has rank 2 in each of the degrees -2..2
    /\ Tab("4_1", 0, 0, FALSE).kh  = {<<-2, 2>>, <<-1, 2>>, <<0, 2>>, <<1, 2>>, <<2, 2>>}
\* the rank operator on hand-made matrices
ASSUME RankExamples ==
    /\ RankRows(<<>>) = 0 /\ RankRows(<<{}, {}>>) = 0
    /\ RankRows(<<{1, 2}, {2, 3}, {1, 3}>>) = 2
    /\ RankRows(<<{1}, {2}, {3}, {1, 2, 3}>>) = 3
    /\ RankRows(<<{5, 7}, {5, 7}, {7}>>) = 2
    /\ PMulF2({0, 1}, {0, 1}) = {0, 2} /\ PMulF2({1}, {0, 2}) = {1, 3} /\ PMulF2({}, {0}) = {}

View == <<dg, kt, ss, depth, nm>>
=============================================================================
