CONSTANTS
  Tier = "thorough"
SPECIFICATION Spec
INVARIANTS AllOK
CHECK_DEADLOCK FALSE
