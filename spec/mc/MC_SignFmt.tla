----------------------------- MODULE MC_SignFmt -----------------------------
(* The notation is faithful: for every integer of -N..N the subscript / superscript reads back to the same integer, distinct
   integers print differently, the length is the number of decimal digits plus one for the minus sign; sign laws; paren_expr
   is idempotent and never changes a blank-free string; lc of a single term / of no term.  One state per integer. *)
EXTENDS SignFmt, FiniteSets, TLC
CONSTANT N
VARIABLE n
Ints == -N..N
MInit == n \in Ints /\ calls = 0
MNext == FALSE /\ UNCHANGED <<n, calls>>
MSpec == MInit /\ [][MNext]_<<n, calls>>
NDigits(k) == Len(DigitsOf(Absv(k)))
ScriptOK == /\ ReadScript(Subscript(n), UnSub, 8331) = n
            /\ ReadScript(Superscript(n), UnSup, 8315) = n
            /\ Len(Subscript(n)) = NDigits(n) + (IF n < 0 THEN 1 ELSE 0)
            /\ Len(Superscript(n)) = Len(Subscript(n))
            /\ \A k \in 1..Len(Superscript(n)) : Superscript(n)[k] \in {8304, 185, 178, 179, 8308, 8309, 8310, 8311, 8312, 8313, 8315}
            /\ \A k \in 1..Len(Subscript(n)) : Subscript(n)[k] \in (8320..8329) \cup {8331}
            /\ ValueOf(DigitsOf(Absv(n))) = Absv(n)
            /\ \A m \in {n - 1, n + 1, -n, 10 * n, n \div 10} : (m # n) => (Subscript(m) # Subscript(n) /\ Superscript(m) # Superscript(n))
SignOK == /\ SignOfParity(n) = SignOfParity(-n) /\ SignOfParity(n + 1) = SignNeg(SignOfParity(n)) /\ SignOfParity(n + 2) = SignOfParity(n)
          /\ \A s \in Signs : SignNeg(SignNeg(s)) = s /\ SignNeg(s) # s /\ SignCmp(s, s) = 0
          /\ SignCmp(-1, 1) = -1 /\ SignCmp(1, -1) = 1
          /\ GetSignOK(n, IF n > 0 THEN 1 ELSE -1) /\ (n # 0 => ~GetSignOK(n, IF n > 0 THEN -1 ELSE 1))
          /\ FromIntOK(n) = (n \in {1, -1})
ParenOK == LET s == DecCodes(n)  t == DecCodes(n) \o <<32, 43, 32>> \o DecCodes(n) IN
           /\ ParenExpr(s) = s
           /\ ParenExpr(t) = <<40>> \o t \o <<41>> /\ Len(ParenExpr(ParenExpr(t))) = Len(t) + 4
LcOK == LET x == <<120>> IN
        /\ LcShown(<<>>) = <<48>>
        /\ LcShown(<<[x |-> x, r |-> DecCodes(n)]>>) = (IF n = 1 THEN x ELSE IF n = -1 THEN <<45>> \o x ELSE DecCodes(n) \o x)
        /\ LcShown(<<[x |-> One, r |-> DecCodes(n)]>>) = DecCodes(n)
        /\ LcShown(<<[x |-> x, r |-> DecCodes(2)], [x |-> <<121>>, r |-> DecCodes(n)]>>)
             = <<50, 120, 32>> \o (IF n < 0 THEN <<45>> ELSE <<43>>) \o <<32>> \o (IF Absv(n) = 1 THEN <<>> ELSE DecCodes(Absv(n))) \o <<121>>
=============================================================================
