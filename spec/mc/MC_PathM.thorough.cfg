CONSTANTS
  K = 4
  L = 4
SPECIFICATION MSpec
INVARIANT TypeOK
INVARIANT EquivOK
INVARIANT GlueLaws
INVARIANT ConnectableLaws
INVARIANT ReduceLaws
CHECK_DEADLOCK FALSE
