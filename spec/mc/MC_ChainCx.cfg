CONSTANTS
  MaxStrands = 3
  MaxLen = 2
SPECIFICATION MCSpec
INVARIANTS Accepts NoSignCaught SwapCaught
CHECK_DEADLOCK FALSE
