------------------------------ MODULE MC_KhCube ------------------------------
(* Exhaustive model for C01 on the small family of MC_Jones (closures of every braid word of length <= MaxLen on
   <= MaxStrands strands and every diagram reachable from them by <= MaxDepth moves: braid relations, Markov moves,
   Reidemeister-2 pairs, the four Reidemeister-1 kinks on every edge, renumbering, reordering, mirror, disjoint
   union, connected sum).  In every state, for the diagram dg:
     - the cube is a complex: d o d = 0 for every (h, t) of HT, unreduced and (t = 0) reduced at every component;
     - d has bidegree (1, 0) when h = t = 0 and is filtered (q rises by 0, 2, 4) in general;
     - the reduced generators span a subcomplex when t = 0;
     - the bigraded table adds up to the total one; universal coefficients relate Z, F_2, F_3;
     - the graded Euler characteristic of the bigraded table is the Jones polynomial jp of Jones.tla (unreduced),
       and jp / (q + 1/q) for the reduced table;
     - Lee / Bar-Natan: when h^2 + 4t # 0 the total rank is 2^components (reduced, t = 0, h # 0: 2^(components-1));
     - ISOTOPY INVARIANCE of the oracle itself: the ghost gk carries the tables of the isotopy class (set at the
       root, kept by every isotopy move, dualised by mirror); the tables computed from dg must equal it.
   Literature values pin the normalisation. *)
EXTENDS MC_Jones, KhHomology

CONSTANTS HT          \* the (h, t) pairs besides (0, 0)
HTQuick    == {<<1, 0>>, <<0, 1>>, <<2, 3>>}
HTThorough == {<<1, 0>>, <<0, 1>>, <<1, 1>>, <<2, 0>>, <<2, 3>>, <<-1, 2>>}

VARIABLES gk,      \* ghost: the tables of the isotopy class
          bk       \* bucket of roots (only there to spread the roots over TLC's workers)
kvars == <<dg, wr, nc, out, res, jp, bw, depth, gk, bk>>
NB == 12
\* the ghost: optional values are sets with at most one element ({} = no prediction)
NoGhost == [bi |-> {}, tot |-> {}, ht |-> {}, rbi |-> {}, rht |-> {}]

\* ---------------------------------------------------------------- what is computed per diagram
\* bases: one base edge per component (its least label)
BasesOf(D) == {MinOfSet(K) : K \in Components(D)}
RedOK(p)   == p[2] = 0
Summary(D) ==
    LET C  == CubeOf(D, -1)
        M0 == KhMats(C, 0, 0)
        tab0 == KhTableM(C, M0)
        bi0  == KhBiTableM(C, M0)
        knot == Cardinality(Components(D)) = 1 /\ Len(D) > 0
        Cr == CubeOf(D, DefaultBase(D))
    IN  [bi  |-> CanonBi(bi0),
         tot |-> CanonTot(tab0),
         ht  |-> [p \in HT |-> CanonTot(KhTable(C, p[1], p[2]))],
         rbi |-> IF knot THEN {CanonBi(KhBiTable(Cr))} ELSE {},
         rht |-> IF knot THEN {[p \in {x \in HT : RedOK(x)} |-> CanonTot(KhTable(Cr, p[1], p[2]))]} ELSE {},
         reuler |-> IF knot THEN {EulerPairs(KhBiTable(Cr))} ELSE {},
         sumok |-> BiSumAgrees(tab0, bi0),
         uctok |-> UctAgrees(tab0) /\ \A p \in HT : UctAgrees(KhTable(C, p[1], p[2])),
         euler |-> EulerPairs(bi0),
         trank |-> [p \in HT |-> TotalRank(KhTable(C, p[1], p[2]))]]

PolyOfSet(ps) == [k \in {x[1] : x \in ps} |-> (CHOOSE x \in ps : x[1] = k)[2]]
TotalRankC(S) == FoldLeft(LAMBDA acc, x : acc + x[2].rank, 0, SetToSeq(S))
\* structural checks of the cube itself (all bases, all parameters)
CubeChecks(D) ==
    LET C == CubeOf(D, -1) IN
    /\ CubeShapeOK(C)
    /\ BiDegOK(C)
    /\ KhDDZero(C, 0, 0)
    /\ \A p \in HT : KhDDZero(C, p[1], p[2]) /\ FilteredOK(C, p[1], p[2])
    /\ \A b \in BasesOf(D) : LET Cr == CubeOf(D, b) IN
          /\ BiDegOK(Cr)
          /\ \A p \in {x \in HT \cup {<<0, 0>>} : RedOK(x)} :
                ReducedClosed(Cr, p[1], p[2]) /\ KhDDZero(Cr, p[1], p[2])

\* ---------------------------------------------------------------- the machine: MC_Jones plus the ghost tables
KInit == MCInit /\ gk = NoGhost /\ bk = -1
WordHash(w) == SumSeq([k \in 1..Len(w) |-> (w[k] + 5) * k]) % NB
KBucket == depth = 0 /\ bk = -1 /\ bk' \in 0..(NB - 1) /\ UNCHANGED <<dg, wr, nc, out, res, jp, bw, depth, gk>>
\* Start of MC_Jones restricted to the words of the bucket
KStart ==
    /\ depth = 0 /\ dg = <<>> /\ bk >= 0
    /\ \E w \in {x \in Words : WordHash(x) = bk} : LET n == StrandsOf(w) IN
          /\ dg' = Closure(n, w) /\ wr' = ExpSum(w) /\ nc' = CycleCount(n, w) /\ out' = NoOut /\ res' = "ok"
          /\ jp' = PNorm(Jones(Closure(n, w))) /\ bw' = <<n, w>>
    /\ Depth(1)
GhostOf(S) == [bi |-> {S.bi}, tot |-> {S.tot}, ht |-> {S.ht}, rbi |-> S.rbi, rht |-> S.rht]
IsoMove == MvWord \/ MvRenumber \/ MvReorder \/ MvKink
KNext == \/ KBucket
         \/ KStart /\ gk' = GhostOf(Summary(dg')) /\ UNCHANGED bk
         \/ IsoMove /\ gk' = gk /\ UNCHANGED bk
         \/ MvMirror /\ gk' = [bi |-> {DualBi(x) : x \in gk.bi}, tot |-> {}, ht |-> {}, rbi |-> {DualBi(x) : x \in gk.rbi}, rht |-> {}] /\ UNCHANGED bk
         \/ (MvDisjoint \/ MvConnSum) /\ gk' = NoGhost /\ UNCHANGED bk
KSpec == KInit /\ [][KNext]_kvars

\* ---------------------------------------------------------------- invariants
HasCube == depth >= 1 /\ Len(dg) > 0
KhStructure == HasCube => CubeChecks(dg)
KhTables == HasCube =>
    LET S == Summary(dg) IN
    /\ S.sumok /\ S.uctok
    /\ S.euler = PairsOfPoly(jp)                                                       \* chi_q(Kh) = Jones  (C04's state sum)
    /\ \A p \in HT : (p[1] * p[1] + 4 * p[2] # 0) => S.trank[p] = 2 ^ nc               \* Lee, Bar-Natan, Turner
    /\ \A x \in S.reuler : PEq(PMul(PolyOfSet(x), Q0), jp)                               \* reduced: chi_q(Khr) (q + 1/q) = Jones
    /\ \A p \in {x \in HT : RedOK(x) /\ x[1] # 0} : \A f \in S.rht : TotalRankC(f[p]) = 1   \* reduced Bar-Natan of a knot: rank 1
    /\ \A g \in gk.bi  : S.bi = g                                                         \* isotopy invariance / mirror duality
    /\ \A g \in gk.tot : S.tot = g
    /\ \A g \in gk.ht  : S.ht = g
    /\ \A g \in gk.rbi : \A x \in S.rbi : x = g
    /\ \A g \in gk.rht : \A x \in S.rht : x = g

\* ---------------------------------------------------------------- literature values (Bar-Natan's tables; Trefoil is left-handed)
Row(i, j, r, ed, f2, f3) == <<i, j, [rank |-> r, ed |-> ed, f2 |-> f2, f3 |-> f3]>>
KhOf(pd)    == CanonBi(KhBiTable(CubeOf(FromPD(pd), -1)))
KhRedOf(pd) == CanonBi(KhBiTable(CubeOf(FromPD(pd), DefaultBase(FromPD(pd)))))
ASSUME KhTrefoil ==
    KhOf(Trefoil) = {Row(-3, -9, 1, <<>>, 1, 1), Row(-3, -7, 0, <<>>, 1, 0), Row(-2, -7, 0, <<2>>, 1, 0), Row(-2, -5, 1, <<>>, 1, 1),
                     Row(0, -3, 1, <<>>, 1, 1), Row(0, -1, 1, <<>>, 1, 1)}
ASSUME KhTrefoilReduced ==
    KhRedOf(Trefoil) = {Row(-3, -8, 1, <<>>, 1, 1), Row(-2, -6, 1, <<>>, 1, 1), Row(0, -2, 1, <<>>, 1, 1)}
ASSUME KhFigure8 ==
    KhOf(Figure8) = {Row(-2, -5, 1, <<>>, 1, 1), Row(-2, -3, 0, <<>>, 1, 0), Row(-1, -3, 0, <<2>>, 1, 0), Row(-1, -1, 1, <<>>, 1, 1),
                     Row(0, -1, 1, <<>>, 1, 1), Row(0, 1, 1, <<>>, 1, 1),
                     Row(1, 1, 1, <<>>, 1, 1), Row(1, 3, 0, <<>>, 1, 0), Row(2, 3, 0, <<2>>, 1, 0), Row(2, 5, 1, <<>>, 1, 1)}
ASSUME KhFigure8Reduced ==
    KhRedOf(Figure8) = {Row(-2, -4, 1, <<>>, 1, 1), Row(-1, -2, 1, <<>>, 1, 1), Row(0, 0, 1, <<>>, 1, 1), Row(1, 2, 1, <<>>, 1, 1), Row(2, 4, 1, <<>>, 1, 1)}
ASSUME KhHopf ==
    KhOf(Hopf) = {Row(-2, -6, 1, <<>>, 1, 1), Row(-2, -4, 1, <<>>, 1, 1), Row(0, -2, 1, <<>>, 1, 1), Row(0, 0, 1, <<>>, 1, 1)}
ASSUME KhMirrorTrefoil == CanonBi(KhBiTable(CubeOf(Mirror(FromPD(Trefoil)), -1))) = DualBi(KhOf(Trefoil))
ASSUME KhSmallest ==
    /\ CanonBi(KhBiTable(CubeOf(<<>>, -1))) = {Row(0, 0, 1, <<>>, 1, 1)}                                           \* the empty link
    /\ CanonBi(KhBiTable(CubeOf(<<[t |-> "H", e |-> <<0, 1, 1, 0>>]>>, -1))) = {Row(0, -1, 1, <<>>, 1, 1), Row(0, 1, 1, <<>>, 1, 1)}   \* crossingless unknot
    /\ CanonBi(KhBiTable(CubeOf(<<[t |-> "H", e |-> <<0, 1, 1, 0>>]>>, 0))) = {Row(0, 0, 1, <<>>, 1, 1)}
    /\ \A pd \in {<<<<0, 0, 1, 1>>>>, <<<<0, 1, 1, 0>>>>, <<<<1, 1, 0, 0>>>>, <<<<1, 0, 0, 1>>>>} :
          KhOf(pd) = {Row(0, -1, 1, <<>>, 1, 1), Row(0, 1, 1, <<>>, 1, 1)} /\ KhRedOf(pd) = {Row(0, 0, 1, <<>>, 1, 1)}
\* Lee's theorem (h, t) = (0, 1) and Bar-Natan's (h, t) = (1, 0): over Q a knot has rank 2, all of it in degree 0;
\* the negative Hopf link has rank 4, in degrees 0 and -2 (twice the linking number)
ASSUME KhLee ==
    \A p \in {<<0, 1>>, <<1, 0>>} :
       /\ \A pd \in {Trefoil, Figure8} : LET tab == KhTable(CubeOf(FromPD(pd), -1), p[1], p[2]) IN
             \A k \in 1..Len(tab) : tab[k].rank = (IF tab[k].i = 0 THEN 2 ELSE 0)
       /\ LET tab == KhTable(CubeOf(FromPD(Hopf), -1), p[1], p[2]) IN
             \A k \in 1..Len(tab) : tab[k].rank = (IF tab[k].i \in {0, -2} THEN 2 ELSE 0)
ASSUME ElemDivisorsOK ==
    /\ ElemDivisors(<<2, 6, 12>>) = <<2, 2, 3, 3, 4>> /\ ElemDivisors(<<1, -8, 9>>) = <<8, 9>> /\ ElemDivisors(<<>>) = <<>>
    /\ SameTorsion(<<2, 6>>, <<6, 2>>) /\ SameTorsion(<<6>>, <<2, 3>>) /\ ~SameTorsion(<<4>>, <<2, 2>>)

KView == <<dg, jp, bw, depth, gk, IF depth = 0 THEN bk ELSE 0>>
=============================================================================
