--------------------------- MODULE MC_UnionFindM ---------------------------
EXTENDS UnionFindM, TLC
CONSTANT N
MInit == n = N /\ cls = [i \in 0..N-1 |-> {i}]
MNext == \E i, j \in 0..N-1 : Union(i, j)
MSpec == MInit /\ [][MNext]_uvars
=============================================================================
