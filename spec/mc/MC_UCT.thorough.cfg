CONSTANTS
  V <- VSmall
  DiagVals = {0, 1, 2, 3, 4, 6}
SPECIFICATION MCSpec
INVARIANTS Accepts Sensitive Coherent
CHECK_DEADLOCK FALSE
