------------------------------ MODULE MC_Jones ------------------------------
(* Exhaustive model for C04 on a small family: the state-sum polynomial of Jones.tla is an invariant of every
   isotopy move the machine knows (braid relations, far commutation, Reidemeister-2 pairs, both Markov moves on
   every braid word of length <= MaxLen on <= MaxStrands strands; the four Reidemeister-1 kinks on every edge;
   renumbering; reordering), becomes p(q^-1) under mirroring, is multiplicative under disjoint union and satisfies
   J(K1 # K2)(q + q^-1) = J(K1) J(K2).  JGhost (jp = Jones(dg)) is the invariant; jp is only ever changed the way
   property C04 says it changes.  Literature values pin the normalisation. *)
EXTENDS Jones, TLC

CONSTANTS MaxStrands, MaxLen, MaxDepth, MaxCross

VARIABLE depth
mvars == <<dg, wr, nc, out, res, jp, bw, depth>>

Letters(n) == {g \in -(n-1)..(n-1) : g # 0}
Words == UNION {UNION {{w \in [1..k -> Letters(n)] : NoFreeLoop(n, w)} : k \in 1..MaxLen} : n \in 2..MaxStrands}
StrandsOf(w) == MaxOfSet({AbsI(w[k]) : k \in 1..Len(w)}) + 1

Trefoil == <<<<1, 4, 2, 5>>, <<3, 6, 4, 1>>, <<5, 2, 6, 3>>>>                 \* left-handed
Figure8 == <<<<4, 2, 5, 1>>, <<8, 6, 1, 5>>, <<6, 3, 7, 4>>, <<2, 7, 3, 8>>>>
Hopf    == <<<<4, 1, 3, 2>>, <<2, 3, 1, 4>>>>                                  \* negative
Summands == {<<<<1, 1, 2, 2>>>>, Hopf, Trefoil, <<<<0, 2, 3, 1>>, <<3, 2, 0, 1>>>>}

P(pairs) == PolyOfPairs(pairs)
ASSUME LiteratureValues ==
    /\ PEq(Jones(FromPD(Trefoil)), P(<<<<-9, -1>>, <<-5, 1>>, <<-3, 1>>, <<-1, 1>>>>))
    /\ PEq(Jones(Mirror(FromPD(Trefoil))), P(<<<<9, -1>>, <<5, 1>>, <<3, 1>>, <<1, 1>>>>))
    /\ PEq(Jones(FromPD(Figure8)), P(<<<<-5, 1>>, <<5, 1>>>>))
    /\ PEq(Jones(FromPD(Hopf)), P(<<<<-6, 1>>, <<-4, 1>>, <<-2, 1>>, <<0, 1>>>>))
    /\ PEq(Jones(<<>>), POne)
    /\ PEq(Jones(<<[t |-> "H", e |-> <<0, 1, 1, 0>>]>>), Q0)                   \* the crossingless unknot
    /\ PEq(Jones(<<[t |-> "V", e |-> <<0, 1, 1, 0>>]>>), PMul(Q0, Q0))
    /\ PEq(Jones(FromPD(<<<<0, 0, 1, 1>>>>)), Q0) /\ PEq(Jones(FromPD(<<<<0, 1, 1, 0>>>>)), Q0)
\* polynomial arithmetic against evaluation at q = 2 (scaled by 2^6 to stay integral)
EvalAt2(p) == SumOverSet(DOMAIN p, [k \in DOMAIN p |-> p[k] * 2^(k + 6)])
ASSUME PolyArithmetic ==
    LET Ps == {P(<<<<-2, 1>>, <<1, -3>>>>), P(<<<<0, 2>>>>), Q0, P(<<<<-1, 1>>, <<0, 1>>, <<3, -2>>>>), [k \in {} |-> 0]}
    IN  \A a, b \in Ps :
          /\ EvalAt2(PAdd(a, b)) = EvalAt2(a) + EvalAt2(b)
          /\ EvalAt2(PMul(a, b)) * 64 = EvalAt2(a) * EvalAt2(b)
          /\ PEq(PMul(a, b), PMul(b, a))
          /\ PEq(PInv(PInv(a)), a) /\ PEq(PShift(PShift(a, 3), -3), a)
          /\ PEq(PNorm(PAdd(a, PScale(-1, a))), [k \in {} |-> 0])
\* the Euler characteristic of the Khovanov table of the left-handed trefoil (Bar-Natan's table, mirrored)
ASSUME PEq(Euler(<<<<-3, -9, 1>>, <<-2, -5, 1>>, <<0, -3, 1>>, <<0, -1, 1>>>>), Jones(FromPD(Trefoil)))

Depth(d) == depth' = d
MCInit == JInit /\ depth = 0

Start ==
    /\ depth = 0 /\ dg = <<>>
    /\ \E w \in Words : LET n == StrandsOf(w) IN
          /\ dg' = Closure(n, w) /\ wr' = ExpSum(w) /\ nc' = CycleCount(n, w) /\ out' = NoOut /\ res' = "ok"
          /\ jp' = PNorm(Jones(Closure(n, w))) /\ bw' = <<n, w>>
    /\ Depth(1)

CanMove == depth >= 1 /\ depth <= MaxDepth
WordMoves(n, w) ==
       {[kind |-> "conj"]}
  \cup {[kind |-> "stab", s |-> s] : s \in {1, -1}}
  \cup {[kind |-> "pair", k |-> k, g |-> g] : k \in 0..Len(w), g \in Letters(n)}
  \cup {[kind |-> "comm", k |-> k] : k \in {k \in 1..Len(w) : CanCommute(w, k)}}
  \cup {[kind |-> "braid", k |-> k] : k \in {k \in 1..Len(w) : CanBraidRel(w, k)}}
ApplyMove(mv, n, w) ==
    CASE mv.kind = "conj"  -> <<n, Conj(w)>>
      [] mv.kind = "stab"  -> <<n + 1, Stabilise(n, w, mv.s)>>
      [] mv.kind = "pair"  -> <<n, InsertPair(w, mv.k, mv.g)>>
      [] mv.kind = "comm"  -> <<n, Commute(w, mv.k)>>
      [] mv.kind = "braid" -> <<n, BraidRel(w, mv.k)>>
MvWord ==
    /\ CanMove /\ bw[1] >= 2
    /\ \E mv \in WordMoves(bw[1], bw[2]) : LET r == ApplyMove(mv, bw[1], bw[2]) IN
          /\ Len(r[2]) <= MaxCross
          /\ Assert(IsWordMove(mv, bw[1], bw[2], r[1], r[2]), "IsWordMove and ApplyMove disagree")
          /\ dg' = Closure(r[1], r[2]) /\ wr' = ExpSum(r[2]) /\ nc' = CycleCount(r[1], r[2]) /\ out' = NoOut /\ res' = "ok"
          /\ UNCHANGED jp /\ bw' = r
    /\ Depth(depth + 1)
MvMirror   == CanMove /\ DoMirror /\ jp' = PNorm(PInv(jp)) /\ bw' = NoWord /\ Depth(depth + 1)
MvRenumber == CanMove /\ DoRenumber([e \in Edges(dg) |-> MaxEdge(dg) + 7 - e]) /\ UNCHANGED <<jp, bw>> /\ Depth(depth + 1)
MvReorder  == CanMove /\ Len(dg) > 1 /\ DoReorder([i \in 1..Len(dg) |-> (i % Len(dg)) + 1]) /\ UNCHANGED jp /\ bw' = NoWord /\ Depth(depth + 1)
MvKink     == /\ CanMove /\ Len(dg) < MaxCross
              /\ \E x \in Edges(dg), k \in KinkKinds : DoKink(x, k)
              /\ UNCHANGED jp /\ bw' = NoWord /\ Depth(depth + 1)
MvDisjoint == /\ CanMove
              /\ \E pd \in Summands : Len(dg) + Len(pd) <= MaxCross /\ DoDisjoint(pd) /\ jp' = PNorm(PMul(jp, Jones(FromPD(pd))))
              /\ bw' = NoWord /\ Depth(depth + 1)
MvConnSum  == /\ CanMove
              /\ \E pd \in Summands : Len(dg) + Len(pd) <= MaxCross /\
                    \E x \in {MinOfSet(Edges(dg)), MaxOfSet(Edges(dg))}, y \in {pd[1][1], pd[1][2]} :
                       /\ DoConnSum(x, pd, y)
                       /\ jp' = PNorm(Jones(dg'))
                       /\ Assert(PEq(PMul(jp', Q0), PMul(jp, Jones(FromPD(pd)))), "connected sum formula fails")
              /\ bw' = NoWord /\ Depth(depth + 1)

MCNext == Start \/ MvWord \/ MvMirror \/ MvRenumber \/ MvReorder \/ MvKink \/ MvDisjoint \/ MvConnSum
MCSpec == MCInit /\ [][MCNext]_mvars

\* the polynomial is determined by the diagram (it does not depend on the history that led to it)
View == <<dg, jp, bw, depth>>
=============================================================================
