CONSTANTS
  AbsN = 100
  MaxStrands = 3
  MaxLen = 3
  MaxDepth = 1
  MaxCross = 5
SPECIFICATION MCSpec
INVARIANTS JGhost GhostWrithe GhostComps
VIEW View
CHECK_DEADLOCK FALSE
