----------------------------- MODULE MC_PolyAlg -----------------------------
(* Exhaustive model of the PolyAlg register machine on small complete domains: every register
   file whose values stay inside the bound, every action, every argument of the small domains.
   The observation handed to an action is the canonical one (ObsOf): the model checker thereby
   shows that the contract of every action is satisfiable by the exact result, and that the
   machine invariants (no zero coefficient is ever held; equality, is_zero and the number of
   terms are those of the mathematical polynomial) hold along every history. *)
EXTENDS PolyAlgEv, TLC

CONSTANT Cap            \* cap on the number of terms a register may hold (3 = the full model; 1 = a small model for experiments)

RingsMC == { MkRing(RI, 0, TRUE, FALSE, FALSE),        \* Z[x, x^-1]
             MkRing(RF(3), 0, FALSE, FALSE, FALSE),    \* F3[x]
             MkRing(RI, 2, FALSE, FALSE, FALSE),       \* Z[x, y]
             MkRing(RI, 2, TRUE, TRUE, FALSE),         \* Z[x0^+-1, x1^+-1] stored as sparse multi-degrees
             MkRing(RI, 0, TRUE, FALSE, TRUE),         \* Z<generators>  (Lc)
             MkRingH(RI) }                             \* homogeneous polynomials over Z (HPoly)

\* arguments of the constructors = bound on the values a history may hold (per ring, see Bounded)
E0 == IF R.hp THEN 0..4 ELSE IF R.nv = 0 THEN (IF R.lau THEN -1..1 ELSE 0..2)
      ELSE {<<0,0>>, <<1,0>>, <<0,1>>} \cup (IF R.lau THEN {<<-1,0>>} ELSE {<<1,1>>})
EBound == E0
C0 == IF R.b.k = "F" THEN 0..2 ELSE IF R.nv = 0 /\ ~R.lc THEN {-1, 0, 1, 2} ELSE {-1, 0, 1}
MaxTerms == IF Cap < 2 THEN Cap ELSE IF R.b.k = "F" THEN 3 ELSE 2
MaxCoef  == IF R.b.k = "F" \/ (R.nv = 0 /\ ~R.lc) THEN 2 ELSE 1
Pts == IF R.nv = 0 THEN {<<c>> : c \in C0} ELSE {<<c, 1>> : c \in C0} \cup {<<2, 0-1>>}

O(d, raw) == ObsOf(raw, [reg EXCEPT ![d] = raw])
Sto(e) == StoreOf(e)

MCInit == R \in RingsMC /\ reg = [r \in Regs |-> PEmpty] /\ out = "-"

\* the monomial operations do not read the registers: they are explored from the states with an empty file
MonoSt == \A r \in Regs : reg[r] = PEmpty

HO(d, raw) == LET e == IF DOMAIN raw = {} THEN 0 ELSE CHOOSE e \in DOMAIN raw : TRUE  rf == [reg EXCEPT ![d] = raw] IN
              [deg |-> e, coeff |-> PCoef(R, raw, e), w |-> <<>>, is_zero |-> (DOMAIN raw = {}), is_one |-> PIsOne(R, raw),
               eqs |-> [j \in 1..NReg |-> RSame(R, raw, rf[j-1])]]
HNext ==
    \/ \E d \in Regs, n \in 0..2, c \in C0 : HNew(d, n, c, HO(d, PMono(R, n, c)))
    \/ \E d, x, y \in Regs : HAdd(d, x, y, HO(d, RAdd(R, reg[x], reg[y])))
    \/ \E d, x, y \in Regs : HSub(d, x, y, HO(d, RSub(R, reg[x], reg[y])))
    \/ \E d, x, y \in Regs : HMul(d, x, y, HO(d, RMul(R, reg[x], reg[y])))
    \/ \E d, x \in Regs : HNeg(d, x, HO(d, RNeg(R, reg[x])))
    \/ \E d, x \in Regs, c \in C0 : HScale(d, x, c, HO(d, PScale(R, c, reg[x])))
    \/ \E d, x \in Regs : HInv(d, x, PIsUnit(R, reg[x], FALSE), HO(d, reg[x]))          \* a unit of Z is its own inverse

PNext ==
    \/ \E d \in Regs : Zero(d, O(d, PEmpty))
    \/ \E d \in Regs : One(d, O(d, ROne(R)))
    \/ \E d \in Regs, c \in C0 : Const(d, c, O(d, PConst(R, c)))
    \/ \E d \in Regs, i \in 1..2 : Variable(d, i, O(d, PMono(R, EUnit(R.nv, i), ROne(R.b))))
    \/ \E d \in Regs, e \in E0, c \in C0 : Term(d, Sto(e), c, O(d, PMono(R, e, c)))
    \/ \E e1 \in E0, c1 \in C0, c2 \in {0, 1} : LET d == 0  e2 == IF c2 = 0 THEN e1 ELSE EZero(R.nv) IN    \* c1 x^e1 - c1 x^e1,  c1 x^e1 + 1
          LET ts == <<<<Sto(e1), c1>>, <<Sto(e2), IF c2 = 0 THEN RNeg(R.b, c1) ELSE 1>>>> IN FromTerms(d, ts, O(d, PFromTerms(R, RawOf(ts))))
    \/ \E d, x \in Regs : Copy(d, x, O(d, reg[x]))
    \/ \E d, x, y \in Regs : Add(d, x, y, O(d, RAdd(R, reg[x], reg[y])))
    \/ \E d, x, y \in Regs : Sub(d, x, y, O(d, RSub(R, reg[x], reg[y])))
    \/ \E d, x \in Regs : Neg(d, x, O(d, RNeg(R, reg[x])))
    \/ \E x \in Regs, c \in C0 : LET d == 0 IN Scale(d, x, c, O(d, PScale(R, c, reg[x])))
    \/ \E x, y \in Regs : LET d == 1 IN SumOf(d, <<x, y, x>>, O(d, RAdd(R, RAdd(R, reg[x], reg[y]), reg[x])))
    \/ \E d, x, y \in Regs : MulRhsOne(d, x, y, O(d, RMul(R, reg[x], reg[y])))
    \/ \E d, x, y \in Regs : MulRhsConst(d, x, y, O(d, RMul(R, reg[x], reg[y])))
    \/ \E d, x, y \in Regs : MulLhsConst(d, x, y, O(d, RMul(R, reg[x], reg[y])))
    \/ \E d, x, y \in Regs : MulGeneral(d, x, y, O(d, RMul(R, reg[x], reg[y])))
    \/ \E x, y \in Regs : LET d == 1 IN ProductOf(d, <<x, y>>, O(d, RMul(R, reg[x], reg[y])))
    \/ \E x \in Regs, n \in {0, 2} : LET d == 0 IN Pow(d, x, n, O(d, PPow(R, reg[x], n)))
    \/ \E d, x \in Regs : LET u == PIsUnit(R, reg[x], R.lau)
                              g == IF u THEN LET e == CHOOSE e \in DOMAIN reg[x] : TRUE IN PMono(R, ENeg(R.nv, e), reg[x][e]) ELSE PEmpty
                          IN Inv(d, x, u, O(d, g))               \* over Z and F3 a unit coefficient is its own inverse
    \/ \E d, x \in Regs : LET g == LET e == CHOOSE e \in DOMAIN reg[x] : TRUE IN PMono(R, ENeg(R.nv, EAdd(R.nv, e, e)), ROne(R.b))
                          IN NegPow(d, x, 2, O(d, g))
    \/ \E d, x \in Regs, m \in 1..2 : R.lc /\
          LET phi == [k \in DOMAIN reg[x] |-> k \div (m+1)]  tab == LET ks == SetToSeq(DOMAIN reg[x]) IN [i \in 1..Len(ks) |-> <<ks[i], phi[ks[i]]>>]
          IN MapGens(d, x, tab, O(d, PMapGens(R, reg[x], phi)))
    \/ \E d, x \in Regs, K \in SUBSET (-1..1) : R.lc /\ FilterGens(d, x, SetToSeq(K), O(d, PFilter(R, reg[x], K)))
    \/ \E d, x \in Regs : R.lc /\
          LET F == LET ks == SetToSeq(DOMAIN reg[x]) IN [i \in 1..Len(ks) |-> <<ks[i], <<<<ks[i], 1>>, <<0, 0-1>>, <<ks[i], 1>>>> >>]
              Fn == [k \in DOMAIN reg[x] |-> PFromTerms(R, <<<<k, 1>>, <<0, 0-1>>, <<k, 1>>>>)]
          IN Apply(d, x, F, O(d, PApply(R, reg[x], Fn)))
    \/ \E d, x, y \in Regs, km \in {"add", "min", "left", "zero"} :
          Combine(d, x, y, km, O(d, PCombine(R, reg[x], reg[y], LAMBDA a, b : KeyMap(km, a, b))))
    \/ \E x \in Regs, pt \in Pts : ~R.lc /\ ~R.lau /\ Eval(x, pt, PEval(R, reg[x], IF R.nv = 0 THEN pt[1] ELSE pt))
    \/ \E e \in E0 : LET x == 1 IN Coeff(x, Sto(e), PCoef(R, reg[x], e))
    \/ \E x \in Regs : IsUnit(x, PIsUnit(R, reg[x], R.lau))
    \/ \E x \in Regs : Look(x, ObsOf(reg[x], reg))
    \/ \E x \in Regs, k \in 1..2 : R.nv > 0 /\
          LET S == {e \in DOMAIN reg[x] : e[k] > 0}
              m == CHOOSE e \in S : \A g \in S : g[k] < e[k] \/ (g[k] = e[k] /\ MGrlex(R.nv, g, e) <= 0)
          IN LeadFor(x, k, S # {}, IF S = {} THEN <<>> ELSE <<Sto(m), reg[x][m]>>)
    \/ \E a, b \in E0, kind \in {"lex", "grlex"} : MonoSt /\ MonoCmp(kind, Sto(a), Sto(b), MCmp(kind, R.nv, a, b))
    \/ \E a, b \in E0 : MonoSt /\ MonoMul(Sto(a), Sto(b), Sto(EAdd(R.nv, a, b)))
    \/ \E a, b \in E0 : MonoSt /\ MonoDiv(Sto(a), Sto(b), Sto(ESub(R.nv, a, b)))
    \/ \E a, b \in E0 : MonoSt /\ MonoDivides(Sto(a), Sto(b), R.lau \/ ELeq(R.nv, a, b))
    \/ \E a \in E0 : MonoSt /\ MonoInv(Sto(a), R.lau \/ a = EZero(R.nv), Sto(ENeg(R.nv, a)))
    \/ \E a \in E0 : MonoSt /\ MonoTotal(Sto(a), ETotal(R.nv, a))

Next == (~R.hp /\ PNext) \/ (R.hp /\ HNext)
Spec == MCInit /\ [][Next]_vars

\* histories are cut where a value leaves the bound (the state itself is still checked)
IAbsC(c) == IF R.b.k = "F" THEN c ELSE IAbs(c)
Bounded == \A r \in Regs : /\ Cardinality(DOMAIN reg[r]) <= MaxTerms
                           /\ \A e \in DOMAIN reg[r] : e \in EBound /\ IAbsC(reg[r][e]) <= MaxCoef

\* every register can be observed, and what is observed is the register (the contract is not vacuous)
LookInv == \A r \in Regs : Sees(ObsOf(reg[r], reg), reg[r], reg)
\* a leading term of a product is the product of the leading terms (Z and F3 are domains; graded lex is
\* compatible with multiplication), so lead_term / lead_deg are multiplicative along every history
LeadInv == \A x, y \in Regs : (~R.lc /\ DOMAIN reg[x] # {} /\ DOMAIN reg[y] # {}) =>
              LET p == RMul(R, reg[x], reg[y]) IN
              /\ LeadExp(p) = EAdd(R.nv, LeadExp(reg[x]), LeadExp(reg[y]))
              /\ p[LeadExp(p)] = RMul(R.b, reg[x][LeadExp(reg[x])], reg[y][LeadExp(reg[y])])
RegView == <<R, reg>>
=============================================================================
