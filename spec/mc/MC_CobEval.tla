------------------------------ MODULE MC_CobEval -----------------------------
(* Exhaustive model of the cobordism-evaluation machine: every component with genus <= MaxG and at most MaxD dots of
   each kind, closed and with boundary, rewritten by every rule at every position in every order.  Invariants: the
   value in A = Z[H,T][X]/(X^2 - HX - T) is constant; terminal states are normal and have the initial value; the
   behaviour graph is acyclic with bounded depth (termination) since every step lowers a component's measure.
   ASSUMEs: Frobenius.tla satisfies the Frobenius-algebra laws over the integer grid h, t in -2..3 and symbolically. *)
EXTENDS CobEval

CONSTANTS MaxG, MaxD,
          Leftmost      \* TRUE: only the largest reducible component is rewritten (all rules); FALSE: every component
VARIABLE steps
mcv == <<cl, terms, v0, steps>>

IntElems == {<<a, b>> : a \in -1..2, b \in -1..2}
ASSUME FrobeniusOverZ == \A h \in -2..3, t \in -2..3 : FrobeniusLaws(RI, h, t, IntElems)
SymElems == {FOne(PR), FX(PR), FY(PR, PH), <<PH, PT>>, <<PC(2), RNeg(PR, PH)>>, FHandle(PR, PH)}
ASSUME FrobeniusSymbolic == FrobeniusLaws(PR, PH, PT, SymElems)
\* the sphere / torus / genus evaluations of the literature:  S = 0, S(X) = 1, torus = 2, genus 2 = 0, genus 3 = 2(H^2 + 4T)
ASSUME KnownValues ==
    /\ RSame(PR, ExpectedClosed(0, 0, 0), RZero(PR)) /\ RSame(PR, ExpectedClosed(0, 1, 0), ROne(PR)) /\ RSame(PR, ExpectedClosed(0, 0, 1), ROne(PR))
    /\ RSame(PR, ExpectedClosed(1, 0, 0), PC(2)) /\ RSame(PR, ExpectedClosed(2, 0, 0), RZero(PR))
    /\ RSame(PR, ExpectedClosed(3, 0, 0), RAdd(PR, RMul(PR, PC(2), RMul(PR, PH, PH)), RMul(PR, PC(8), PT)))
    /\ RSame(PR, ExpectedClosed(0, 2, 0), PH) /\ RSame(PR, ExpectedClosed(0, 0, 2), RNeg(PR, PH)) /\ RSame(PR, ExpectedClosed(0, 1, 1), RZero(PR))
    /\ RSame(PR, ExpectedClosed(0, 3, 0), RAdd(PR, RMul(PR, PH, PH), PT))

\* every rule at every component with genus <= SG and <= SD dots of each kind keeps the value (the inductive step)
CONSTANTS SG, SD
ASSUME RulesSound == \A g \in 0..SG, x \in 0..SD, y \in 0..SD : RuleSound(<<g, x, y>>)

Init == cl = FALSE /\ terms = <<>> /\ v0 = FZero(PR) /\ steps = -1
Begin == /\ steps = -1
         /\ \E c \in BOOLEAN, g \in 0..MaxG, x \in 0..MaxD, y \in 0..MaxD : Start(c, g, x, y)
         /\ steps' = 0
Rew == steps >= 0 /\ (IF Leftmost THEN StepLeft ELSE Step) /\ steps' = steps + 1
Next == Begin \/ Rew
Spec == Init /\ [][Next]_mcv

Started == steps >= 0
ValueOK    == Started => (ValueInv /\ ZeroInv)
NormalOK   == Started => TerminalOK
\* a run from <<g, x, y>> has at most 2^g (x + y + g + 1) ... a crude bound: steps never exceed 4^(MaxG) * (2 MaxD + 2 MaxG + 2)
Bounded    == steps <= (4 ^ MaxG) * (2 * MaxD + 2 * MaxG + 2)
\* deadlock = terminal: a state without successor is normal
DeadOK     == Started => (Terminal \/ ENABLED Rew)
MView == <<cl, terms, v0>>
=============================================================================
