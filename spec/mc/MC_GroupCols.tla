---------------------------- MODULE MC_GroupCols ----------------------------
EXTENDS GroupCols, TLC
\* every intersection graph on N columns is an initial choice: Edges is quantified by running one
\* TLC configuration per graph family (see cfg files); this module fixes nothing.
=============================================================================
