CONSTANTS
  K = 3
  L = 3
SPECIFICATION MSpec
INVARIANT Bijection
INVARIANT Deterministic
CHECK_DEADLOCK FALSE
