CONSTANTS
  VMax = 2
SPECIFICATION MSpec
INVARIANTS LatticeOK ResultOK
PROPERTIES PotDecreases Terminates
CHECK_DEADLOCK FALSE
