CONSTANTS
  VMax = 3
SPECIFICATION MSpec
INVARIANTS LatticeOK ResultOK
PROPERTIES PotDecreases Terminates
CHECK_DEADLOCK FALSE
