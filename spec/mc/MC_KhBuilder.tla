----------------------------- MODULE MC_KhBuilder ----------------------------
(* Exhaustive model of the abstract builder: from each root diagram, every order of absorbing the crossings, every
   order of delooping closed circles, and eliminations of admissible pairs (at most MaxElim per history) between
   them.  Invariants: KeysOK and EulerOK - whatever the schedule, once all crossings are absorbed the graded Euler
   characteristic of the vertices is that of the cube of resolutions; a completely built and delooped state has the
   generators of the cube minus the eliminated pairs. *)
EXTENDS KhBuilder

CONSTANTS MaxElim, Roots
VARIABLE ne
mbvars == <<dg, wr, nc, out, res, kb, ne>>

RootsQuick == {<<<<0, 0, 1, 1>>>>, <<<<0, 1, 1, 0>>>>, <<<<4, 1, 3, 2>>, <<2, 3, 1, 4>>>>}
RootsSmall == {<<<<0, 0, 1, 1>>>>, <<<<0, 1, 1, 0>>>>, <<<<4, 1, 3, 2>>, <<2, 3, 1, 4>>>>, <<<<1, 4, 2, 1>>, <<2, 4, 3, 3>>>>}
RootsMore  == RootsSmall \cup {<<<<0, 2, 3, 1>>, <<3, 2, 0, 1>>>>, <<<<0, 0, 1, 1>>, <<2, 3, 3, 2>>>>}
Params == {<<0, 0, -1>>, <<1, 1, -1>>, <<0, 0, 0>>, <<2, 0, 0>>}       \* <<h, t, base marker>>: 0 = the default base edge

MInit == KbInit /\ ne = 0
MBegin == /\ ~kb.on
          /\ \E pd \in Roots, p \in Params : Begin(FromPD(pd), p[1], p[2], IF p[3] < 0 THEN -1 ELSE DefaultBase(FromPD(pd)))
          /\ ne' = 0
MAppend == kb.on /\ (\E x \in 1..Len(dg) : Append1(x)) /\ UNCHANGED ne
MDeloop == /\ kb.on
           \* (symmetry reduction: of the circles of a vertex the one with the least label first; any vertex)
           /\ \E k \in kb.keys : LET U == {c \in Undelooped(kb, k) : kb.base \in c => BasedTurn} IN
                 U # {} /\ Deloop(KeyId(k), CHOOSE c \in U : \A c2 \in U : MinOfSet(c) <= MinOfSet(c2))
           /\ UNCHANGED ne
MElim   == /\ kb.on /\ ne < MaxElim
           /\ \E k \in kb.keys, l2 \in kb.keys : Eliminate(KeyId(k), KeyId(l2))
           /\ ne' = ne + 1
MNext == MBegin \/ MAppend \/ MDeloop \/ MElim
MSpec == MInit /\ [][MNext]_mbvars

\* a finished state without eliminations has exactly the generators of the cube (as a count per weight and q-degree)
FinishedOK == (kb.on /\ FullyBuilt /\ ne = 0) =>
    LET C == CubeOf(dg, kb.base)
        sh == C.npos - 2 * C.nneg + (IF kb.base >= 0 THEN 1 ELSE 0)
    IN  \A w \in 0..C.n : \A q \in QDegsAt(C, w) :
           Cardinality({k \in kb.keys : Weight(k.st) = w /\ QKey(k) + sh = q}) = Len(QIdx(C, w, q))
MView == <<dg, kb, ne>>
=============================================================================
