CONSTANTS
  MaxElim = 1
  Roots <- RootsQuick
SPECIFICATION MSpec
INVARIANTS KeysOK TgOK EulerOK FinishedOK
VIEW MView
CHECK_DEADLOCK FALSE
