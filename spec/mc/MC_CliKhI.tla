----------------------------- MODULE MC_CliKhI -----------------------------
(* Exhaustive model of the khi / ckhi decision table (CliKhI.tla):
   {khi,ckhi} x -t x -c values x -m x -r x every combination of -g -a -s -d x -f x a small set of concrete
   LINK arguments (table names, names outside the table, garbage, PD codes - symmetric, not symmetric, shifted,
   empty, ill-formed; the class of a PD code is COMPUTED by PDClass), every admissible observable at every point;
   behaviours of two invocations (an input and its mirror image with -s) for the relations of the printed pair;
   theorems of the table as ASSUMEs. *)
EXTENDS CliKhI, KhITable

CONSTANT Wide     \* FALSE: quick (reduced -c set, reduced product for the types other than F2); TRUE: thorough

SinvNames == TableNames \ {"9_46"}      \* 9_46 is in KhITable.tla for C19 only; the loader's table does not have it

\* --- concrete LINK arguments
NameIn(n, cls) == [kind |-> "name", name |-> n, pd |-> <<>>, cls |-> cls]
TextIn(cls)    == [kind |-> "text", name |-> "", pd |-> <<>>, cls |-> cls]
PdIn(pd)       == [kind |-> "pd", name |-> "", pd |-> pd, cls |-> ""]
ClassOfInput(x) == CASE x.kind = "name" -> IF x.name \in SinvNames THEN "sinv" ELSE x.cls
                     [] x.kind = "pd"   -> PDClass(x.pd)
                     [] OTHER           -> x.cls
Trefoil   == CodeOf("3_1")
StdTrefoil == <<<<1,4,2,5>>, <<3,6,4,1>>, <<5,2,6,3>>>>          \* the catalogue code of 3_1: symmetric as well
Fig8Cat   == <<<<4,2,5,1>>, <<8,6,1,5>>, <<6,3,7,4>>, <<2,7,3,8>>>>  \* 4_1 of the table, crossings re-listed
Asym52    == <<<<1,4,2,5>>, <<3,8,4,9>>, <<5,10,6,1>>, <<9,6,10,7>>, <<7,2,8,3>>>>   \* catalogue 5_2: labels 1..10, no symmetry
Shifted   == <<<<2,6,3,5>>, <<4,2,5,7>>, <<6,4,7,3>>>>             \* the table's trefoil with every label + 1
Twice12   == <<<<1,2,3,4>>, <<1,2,3,4>>>>                          \* every label twice, one crossing listed twice
Inputs == {NameIn("3_1", ""), NameIn("4_1", ""), NameIn("5_2", "noninv"), NameIn("9_46", "noninv"), NameIn("foo", "unknown"),
           TextIn("garbage"), TextIn("notpd"), TextIn("file"),
           PdIn(Trefoil), PdIn(StdTrefoil), PdIn(Fig8Cat), PdIn(Asym52), PdIn(Shifted), PdIn(<<>>), PdIn(<<<<1,2,3,4>>>>), PdIn(Twice12)}
QuickInputs == Inputs \ {NameIn("4_1", ""), NameIn("9_46", "noninv"), PdIn(Fig8Cat), PdIn(Twice12)}
FewInputs == {NameIn("3_1", ""), NameIn("5_2", "noninv"), PdIn(Trefoil)}

ASSUME PDClass(Trefoil) = "sympd" /\ PDClass(StdTrefoil) = "sympd" /\ PDClass(Fig8Cat) = "sympd"
ASSUME PDClass(Asym52) = "asympd" /\ PDClass(Shifted) = "offpd" /\ PDClass(<<>>) = "empty"
ASSUME PDClass(<<<<1,2,3,4>>>>) = "badpd" /\ PDClass(Twice12) = "asympd" /\ PDClass(<<<<1,1,1,2>>>>) = "badpd"
\* every code of the built-in table is accepted by the loader; so is its second symmetric numbering; a cyclic shift of the labels by 1 is not
\* (for the diagrams without further symmetry: on the standard diagrams of the torus knots and of 4_1 every cyclic shift is accepted)
RotLabels(pd) == [i \in 1..Len(pd) |-> [j \in 1..4 |-> ((pd[i][j] + Len(pd) - 1) % NumLabels(pd)) + 1]]
ShiftLabels(pd) == [i \in 1..Len(pd) |-> [j \in 1..4 |-> (pd[i][j] % NumLabels(pd)) + 1]]
ASSUME \A k \in 1..Len(InvTable) : PDClass(InvTable[k].pd) = "sympd" /\ PDClass(RotLabels(InvTable[k].pd)) = "sympd"
ASSUME \A k \in 1..Len(InvTable) : InvTable[k].name \notin {"3_1", "4_1", "5_1", "7_1"} => PDClass(ShiftLabels(InvTable[k].pd)) = "asympd"
ASSUME \A nm \in {"3_1", "4_1", "5_1", "7_1"} : PDClass(ShiftLabels(CodeOf(nm))) = "sympd"

\* --- the -c values
H  == VarTok("H")
T  == VarTok("T")
Z0 == IntTok(0)
CVq == {<<Z0>>, <<IntTok(1)>>, <<IntTok(2)>>, <<H>>, <<T>>, <<JunkTok>>, <<RatTok(1, 2)>>,
        <<Z0, T>>, <<H, T>>, <<Z0, IntTok(1)>>, <<H, Z0>>, <<IntTok(1), IntTok(2), IntTok(3)>>}
CVt == CVq \cup {<<IntTok(-1)>>, <<IntTok(3)>>, <<IntTokNC(0)>>, <<RatTok(1, 0)>>, <<T, H>>, <<IntTok(1), IntTok(1)>>, <<IntTok(1), T>>, <<H, IntTok(1)>>,
                 <<T, Z0>>, <<H, H>>, <<IntTok(2), T>>, <<Z0, Z0>>, <<H, IntTok(2)>>, <<Z0, JunkTok>>, <<H, T, Z0>>}
CVfew == {<<Z0>>, <<H>>, <<JunkTok>>}
CVmid == CVfew \cup {<<IntTok(1)>>, <<H, T>>, <<RatTok(1, 2)>>}
CValues == IF Wide THEN CVt ELSE CVq

\* (the class of every input is computed once)
ClassTab == TLCEval([x \in Inputs |-> ClassOfInput(x)])
MPoint(cmd, ct, cv, m, r, fl, x) ==
    [cmd |-> cmd, ctype |-> ct, cv |-> cv, mirror |-> m, reduced |-> r, fl |-> fl, ic |-> ClassTab[x], inp |-> x]
\* (a union of two big sets is quadratic in TLC: the union is taken on the small index sets)
Combos == ({"F2"} \X CValues \X (IF Wide THEN Inputs ELSE QuickInputs))
          \cup ((ICTypes \ {"F2"}) \X (IF Wide THEN CVmid ELSE CVfew) \X (IF Wide THEN QuickInputs ELSE FewInputs))
Points == {MPoint(cmd, c[1], c[2], m, r, fl, c[3]) : cmd \in ICmds, c \in Combos, m \in BOOLEAN, r \in BOOLEAN, fl \in Flags}

Pairs == {<<a, b>> : a, b \in {-2, 0, 2}}
IsSsiPoint(p) == p.fl.s /\ p.ic = "sinv" /\ IOutcomeAt(p).class # "Error"
KeyOf(p)      == <<p.inp.name, RingOf(p.ctype, p.cv).vars, p.reduced>>

\* one initial state per (command, -m, -r): TLC's workers share the product (all successors of one state are computed by one worker)
VARIABLE bk
mcvars == <<inv, obs, fail, ss, bk>>
Buckets == ICmds \X BOOLEAN \X BOOLEAN
MCInit == IInit /\ bk \in Buckets
PointsB == {MPoint(bk[1], c[1], c[2], bk[2], bk[3], fl, c[3]) : c \in Combos, fl \in Flags}

\* first invocation
DoIErr      == inv = NoInv /\ UNCHANGED bk /\ \E p \in PointsB, ob \in IObservables : IInvokeErr(p, ob)
DoITable    == inv = NoInv /\ UNCHANGED bk /\ \E p \in PointsB, ob \in IObservables :
                  /\ IInvokeTable(p, ob)
                  /\ IF IsSsiPoint(p) THEN \E pr \in Pairs : SsiObserve(p.inp.name, KeyOf(p)[2], p.reduced, p.mirror, pr) ELSE UNCHANGED ss
DoIInternal == inv = NoInv /\ UNCHANGED bk /\ \E p \in PointsB, ob \in IObservables : IInvokeInternal(p, ob)
\* second invocation: the same command line with -m toggled; only a pair that obeys the mirror relation is a step
DoIMirrorRun == /\ inv # NoInv /\ ~fail /\ IsSsiPoint(inv) /\ Cardinality(DOMAIN ss) = 1 /\ UNCHANGED bk
                /\ \E pr \in Pairs, ob \in IObservables :
                      /\ IInvokeTable([inv EXCEPT !.mirror = ~inv.mirror], ob)
                      /\ SsiObserve(inv.inp.name, KeyOf(inv)[2], inv.reduced, ~inv.mirror, pr)
Next == DoIErr \/ DoITable \/ DoIInternal \/ DoIMirrorRun
Spec == MCInit /\ [][Next]_mcvars

IOutcomeTotal == inv # NoInv => /\ IOutcomeAt(inv).class \in IClasses /\ IOutcomeAt(inv).why \in IWhys
                                /\ (IOutcomeAt(inv).class = "Error" <=> IOutcomeAt(inv).why # "-")
\* the pairs remembered obey the relations: well formed, and the two mirror images are related by (s0,s1) -> (-s1,-s0)
MirrorLaw == \A k \in DOMAIN ss : LET mk == <<k[1], k[2], k[3], ~k[4]>> IN mk \in DOMAIN ss => ss[mk] = MirrorPair(ss[k])

\* ---------------------------------------------------------------- theorems of the decision table
At(p) == IOutcomeAt(p).class
OK(c) == c # "Error"
With(p, f, v) == [p EXCEPT ![f] = v]
WithFl(p, f, v) == [p EXCEPT !.fl[f] = v]

\* characteristic 2 only: every type other than F2 is an error whatever else is given
Char2Only        == \A p \in Points : p.ctype # "F2" => At(p) = "Error"
\* -m never changes the kind of result
IMirrorIrrelevant == \A p \in Points : At(With(p, "mirror", TRUE)) = At(With(p, "mirror", FALSE))
\* whatever khi accepts ckhi accepts (without -s, which ckhi does not have)
KhIWithinCkhI    == \A p \in Points : p.cmd = "khi" /\ ~p.fl.s /\ OK(At(p)) => OK(At(With(p, "cmd", "ckhi")))
\* dropping -r, -a, -s or -g from an accepted command line leaves it accepted; -g never matters
FlagsMonotone    == \A p \in Points : OK(At(p)) => /\ OK(At(With(p, "reduced", FALSE)))
                                                     /\ \A f \in {"g", "a", "s", "d"} : OK(At(WithFl(p, f, FALSE)))
GensIrrelevant   == \A p \in Points : At(WithFl(p, "g", TRUE)) = At(WithFl(p, "g", FALSE))
\* an argument that yields no diagram, three parts, a flag of the other command: always an error
IBadInputIsError == \A p \in Points : (p.ic \in IUnloadable \/ Len(p.cv) >= 3 \/ (p.fl.s /\ p.cmd = "ckhi") \/ (p.fl.d /\ p.cmd = "khi")
                                        \/ p.fl.f = "bad") => At(p) = "Error"
\* kind by command; TeX only for the (i,j) tables
IKindByCmd       == \A p \in Points : /\ p.cmd = "ckhi" => At(p) \in {"GenTable", "Tex", "Error"}
                                      /\ p.cmd = "khi"  => At(p) \in {"Table2D", "Seq1D", "Tex", "Error"}
                                      /\ At(p) = "Tex" => p.fl.f = "tex"
                                      /\ (OK(At(p)) /\ p.fl.f = "tex") => At(p) \in {"Tex", "Seq1D"}
\* -s needs a coefficient ring in which h is neither 0 nor a unit: never over the field F2 itself, never with two letters
SsiNeedsVariable == \A p \in Points : p.fl.s /\ OK(At(p)) => RingOf(p.ctype, p.cv).vars \in {"H", "T"} /\ p.cv[1].k = "var"
\* -a and -r need t = 0
NeedTZero        == \A p \in Points : (p.fl.a \/ p.reduced \/ p.fl.s) /\ OK(At(p)) => IsZeroIn(ParsePair(p.cv, RingOf(p.ctype, p.cv)).t, RingOf(p.ctype, p.cv))
\* examples (README / tests of the commands)
P0(cmd, cv, r, fl, ic) == IPoint(cmd, "F2", cv, FALSE, r, fl, ic)
Examples == /\ At(P0("khi", <<Z0>>, FALSE, NoFlags, "sinv")) = "Table2D"
            /\ At(P0("khi", <<IntTok(1)>>, TRUE, NoFlags, "sympd")) = "Seq1D"
            /\ At(P0("khi", <<IntTok(2)>>, FALSE, NoFlags, "sinv")) = "Table2D"        \* 2 = 0 in F2
            /\ At(P0("khi", <<H>>, FALSE, NoFlags, "sinv")) = "Table2D"
            /\ At(P0("khi", <<Z0, T>>, FALSE, NoFlags, "sinv")) = "Table2D"
            /\ At(P0("khi", <<Z0, T>>, TRUE, NoFlags, "sinv")) = "Error"
            /\ At(P0("khi", <<H, T>>, FALSE, NoFlags, "sinv")) = "Error"
            /\ At(P0("ckhi", <<H, T>>, FALSE, NoFlags, "sinv")) = "GenTable"
            /\ At(P0("ckhi", <<IntTok(1)>>, TRUE, [NoFlags EXCEPT !.a = TRUE], "sympd")) = "GenTable"
            /\ At(P0("khi", <<H>>, FALSE, [NoFlags EXCEPT !.s = TRUE], "sinv")) = "Table2D"
            /\ At(P0("khi", <<T>>, TRUE, [NoFlags EXCEPT !.s = TRUE], "sinv")) = "Seq1D"
            /\ At(P0("khi", <<Z0>>, FALSE, [NoFlags EXCEPT !.s = TRUE], "sinv")) = "Error"
            /\ At(P0("khi", <<IntTok(1)>>, FALSE, [NoFlags EXCEPT !.s = TRUE], "sinv")) = "Error"
            /\ At(P0("khi", <<Z0, T>>, FALSE, [NoFlags EXCEPT !.a = TRUE], "sinv")) = "Error"
            /\ At(P0("khi", <<Z0>>, FALSE, [NoFlags EXCEPT !.f = "tex"], "sinv")) = "Tex"
            /\ At(P0("khi", <<IntTok(1)>>, FALSE, [NoFlags EXCEPT !.f = "tex"], "sinv")) = "Seq1D"
            /\ At(P0("khi", <<Z0>>, FALSE, NoFlags, "noninv")) = "Error"
            /\ At(P0("khi", <<Z0>>, FALSE, NoFlags, "file")) = "Error"
            /\ At(IPoint("khi", "Z", <<Z0>>, FALSE, FALSE, NoFlags, "sinv")) = "Error"
            /\ At(IPoint("ckhi", "Q", <<RatTok(1, 2)>>, FALSE, FALSE, NoFlags, "sinv")) = "Error"
\* the generator table of ckhi is compared exactly for the graded theories
IModeEx == /\ IGenMode(<<Z0>>) = "exact" /\ IGenMode(<<H>>) = "exact" /\ IGenMode(<<Z0, T>>) = "exact" /\ IGenMode(<<H, T>>) = "exact"
           /\ IGenMode(<<IntTok(2)>>) = "exact" /\ IGenMode(<<IntTok(1)>>) = "euler" /\ IGenMode(<<T>>) = "euler" /\ IGenMode(<<IntTok(1), T>>) = "euler"
\* the shape of the printed s values
SsiEx == /\ SsiShape(<<2, 2, 4, 4>>, FALSE, <<2, 4>>) /\ SsiShape(<<2, 4>>, TRUE, <<2, 4>>)
         /\ ~SsiShape(<<2, 4, 2, 4>>, FALSE, <<2, 4>>) /\ ~SsiShape(<<2, 2>>, FALSE, <<2, 2>>) /\ ~SsiShape(<<2, 2, 4, 4>>, TRUE, <<2, 4>>)
         /\ ExtrasOK([NoFlags EXCEPT !.s = TRUE], TRUE, [NoExtra EXCEPT !.ssi = <<0, 2>>], [nz |-> 5, ncyc |-> 2, knot |-> TRUE, pair |-> <<0, 2>>])
         /\ ~ExtrasOK([NoFlags EXCEPT !.s = TRUE], TRUE, [NoExtra EXCEPT !.ssi = <<2, 0>>], [nz |-> 5, ncyc |-> 2, knot |-> TRUE, pair |-> <<2, 0>>])
         /\ ~ExtrasOK(NoFlags, TRUE, [NoExtra EXCEPT !.gens = 5], [nz |-> 5, ncyc |-> 2, knot |-> TRUE, pair |-> <<>>])
         /\ ExtrasOK([NoFlags EXCEPT !.g = TRUE], TRUE, [NoExtra EXCEPT !.gens = 5], [nz |-> 5, ncyc |-> 2, knot |-> TRUE, pair |-> <<>>])
         /\ ~ExtrasOK([NoFlags EXCEPT !.a = TRUE], TRUE, [NoExtra EXCEPT !.alpha = 1], [nz |-> 5, ncyc |-> 2, knot |-> TRUE, pair |-> <<>>])

ASSUME PrintT(<<"THM", "Char2Only">>) /\ Char2Only
ASSUME PrintT(<<"THM", "IMirrorIrrelevant">>) /\ IMirrorIrrelevant
ASSUME PrintT(<<"THM", "KhIWithinCkhI">>) /\ KhIWithinCkhI
ASSUME PrintT(<<"THM", "FlagsMonotone">>) /\ FlagsMonotone
ASSUME PrintT(<<"THM", "GensIrrelevant">>) /\ GensIrrelevant
ASSUME PrintT(<<"THM", "IBadInputIsError">>) /\ IBadInputIsError
ASSUME PrintT(<<"THM", "IKindByCmd">>) /\ IKindByCmd
ASSUME PrintT(<<"THM", "SsiNeedsVariable">>) /\ SsiNeedsVariable
ASSUME PrintT(<<"THM", "NeedTZero">>) /\ NeedTZero
ASSUME PrintT(<<"THM", "Examples">>) /\ Examples
ASSUME PrintT(<<"THM", "IModeEx">>) /\ IModeEx
ASSUME PrintT(<<"THM", "SsiEx">>) /\ SsiEx
=============================================================================
