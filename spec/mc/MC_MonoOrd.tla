----------------------------- MODULE MC_MonoOrd -----------------------------
(* The order axioms C16 claims of cmp_lex / cmp_grlex (MonoOrd.tla) on all monomial triples with
   exponents -2..2 in one, two and three variables: total order (antisymmetric, transitive, total),
   compatible with multiplication, graded, admissible on the monomials without negative exponents.
   One state per (number of variables, first monomial): its expansion checks all pairs (y, z). *)
EXTENDS MonoOrd, TLC

CONSTANTS B2, B3     \* exponent bound for one / two variables, and for three variables
VARIABLES c, ok

Monos(nv) == IF nv = 0 THEN (0-B2)..B2 ELSE IF nv = 2 THEN [1..2 -> (0-B2)..B2] ELSE [1..nv -> (0-B3)..B3]
Lx(nv, a, b) == MLex(nv, a, b)
Gx(nv, a, b) == MGrlex(nv, a, b)

\* the axioms with the first monomial fixed to x
AxiomsAt(nv, x) ==
    LET S == Monos(nv) IN
    /\ Lx(nv, x, x) = 0 /\ Gx(nv, x, x) = 0
    /\ \A y \in S :
         /\ Lx(nv, x, y) \in {-1, 0, 1} /\ Gx(nv, x, y) \in {-1, 0, 1}
         /\ Lx(nv, x, y) = 0 - Lx(nv, y, x) /\ Gx(nv, x, y) = 0 - Gx(nv, y, x)
         /\ (Lx(nv, x, y) = 0 <=> x = y) /\ (Gx(nv, x, y) = 0 <=> x = y)
         /\ ETotal(nv, x) < ETotal(nv, y) => Gx(nv, x, y) = -1
         /\ (IF nv = 0 THEN y >= 0 ELSE \A i \in 1..nv : y[i] >= 0) => Lx(nv, EZero(nv), y) <= 0 /\ Gx(nv, EZero(nv), y) <= 0
         /\ \A z \in S :
              /\ (Lx(nv, x, y) <= 0 /\ Lx(nv, y, z) <= 0) => Lx(nv, x, z) <= 0
              /\ (Gx(nv, x, y) <= 0 /\ Gx(nv, y, z) <= 0) => Gx(nv, x, z) <= 0
              /\ Lx(nv, EAdd(nv, x, z), EAdd(nv, y, z)) = Lx(nv, x, y)
              /\ Gx(nv, EAdd(nv, x, z), EAdd(nv, y, z)) = Gx(nv, x, y)

Init == c \in {<<nv, x>> : nv \in {0}, x \in Monos(0)} \cup {<<2, x>> : x \in Monos(2)} \cup {<<3, x>> : x \in Monos(3)}
        /\ ok = "?"
Next == ok = "?" /\ ok' = (IF AxiomsAt(c[1], c[2]) THEN "holds" ELSE "FAILS") /\ c' = c
Spec == Init /\ [][Next]_<<c, ok>>
AllOK == ok # "FAILS"
\* the packaged form of the axioms (used by other modules) agrees on a small set
Packaged == OrderAxioms(2, [1..2 -> -1..1]) /\ OrderAxioms(0, -2..2)
=============================================================================
