CONSTANTS
  B2 = 2
  B3 = 2
SPECIFICATION Spec
INVARIANTS AllOK Packaged
CHECK_DEADLOCK FALSE
