CONSTANTS
  Tier = "quick"
SPECIFICATION Spec
INVARIANTS AllOK
CHECK_DEADLOCK FALSE
