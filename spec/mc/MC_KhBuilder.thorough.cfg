CONSTANTS
  MaxElim = 1
  Roots <- RootsSmall
SPECIFICATION MSpec
INVARIANTS KeysOK TgOK EulerOK FinishedOK
VIEW MView
CHECK_DEADLOCK FALSE
