CONSTANTS
  AbsN = 100
  AbsSS = 100
  MaxDepth = 1
  MaxCross = 4
  SeedMax = 4
  DefN = 3
SPECIFICATION MCSpec
INVARIANTS Knot LitGhost WindowOK XChangeThm DefThm GhostWrithe GhostComps DiagramOK
VIEW View
CHECK_DEADLOCK FALSE
