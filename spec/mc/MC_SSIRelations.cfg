CONSTANTS
  R = 2
  Keys = {"a", "b"}
SPECIFICATION Spec
INVARIANTS SSOK MirrorInvolution Refuses RefusesBad
CHECK_DEADLOCK FALSE
