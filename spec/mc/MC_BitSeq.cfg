CONSTANTS
  MaxLen = 4
  WordLen = 5
  NReg = 2
SPECIFICATION Spec
INVARIANTS TypeOK LenOK OrderOK OpsOK
PROPERTY RejKeeps
CHECK_DEADLOCK FALSE
