CONSTANTS
  Depth = 1
SPECIFICATION MSpec
INVARIANTS Inv DiagFixOnce
CHECK_DEADLOCK FALSE
