CONSTANTS
  Depth = 2
SPECIFICATION MSpec
INVARIANTS Inv DiagFixOnce
CHECK_DEADLOCK FALSE
