#!/usr/bin/env python3
"""Regenerates /verif/MANIFEST.json from the table below (single source of truth for the interface)."""
import json, os
ROOT = os.path.dirname(os.path.dirname(os.path.abspath(__file__)))
props = [json.loads(l) for l in open(os.path.join(ROOT, "properties.jsonl"))]
CHECKS = {
 "C17": dict(technique="TLA+ spec BitSeq (register machine over lists of booleans); TLC exhaustive for MaxLen=4; TLC-enumerated boundary transitions at MaxLen=64 replayed into yui::bitseq::BitSeq; recorded random histories validated by Trace_BitSeq",
             text="TLC checks the list-of-booleans machine exhaustively for MaxLen=4 (all register states, actions, arguments, order axioms); every TLC transition of the length-0/32/64 boundary family becomes one implementation test, and seeded random histories of the real type are validated event by event against the spec (register file, result class, returned value).",
             note="Trusted: TLC, the harness' projection of a BitSeq through the public (as_u64,len) pair. Out-of-range indices are not issued.", design="§3 C17"),
 "C14": dict(technique="TLA+ spec Scalars (register machine over exact rings, BigNum limb arithmetic in TLA+); TLC exhaustive on small complete domains with expected values replayed on all 16 scalar types in six operator forms; recorded histories validated by Trace_Scalars",
             text="TLC model-checks the bignum and ring libraries against the ring axioms, enumerates every operand pair/operation of the small domains with the canonical expected value (replayed on every scalar type and operator form), and validates seeded histories of the real types (values to 10^300+, machine ints near their limits) event by event: every result must be the exact ring element in canonical form and every comparison the mathematical answer.",
             note="Trusted: TLC, BigNum.tla/Rings.tla (model-checked), decimal->limb chunking in the harness, Bezout witnesses re-multiplied by TLC. Machine-integer ops only inside the representable envelope.", design="§3 C14"),
 "C16": dict(technique="TLA+ spec PolyAlg (register machine over the free algebra / free module: polynomial = finite map monomial -> non-zero coefficient, Rings.tla kind P) + MonoOrd (lex / graded lex axioms); TLC exhaustive on small domains; TLC-enumerated transitions replayed into yui::poly::{Poly,LPoly,Poly2,LPoly2,Poly3,LPoly3,PolyN,LPolyN} and yui::lc::Lc over i64, BigInt, Ratio<i64>, FF<3>, FF<5>, GaussInt<i64>; recorded cancellation-heavy histories validated by Trace_PolyAlg",
             text="TLC model-checks the polynomial oracle (ring axioms over Z, Q, F_p, Z[i] in 1-3 variables, evaluation homomorphism, multiplicative leading term, linearity of map_gens/filter/apply/combine), the lex / graded-lex order axioms on all monomial triples with exponents -2..2 in 1-3 variables, and the PolyAlg register machine exhaustively on small domains (no zero coefficient is ever held; ==, is_zero, nterms, lead term are those of the mathematical polynomial). Every TLC transition over the complete small operand domains is replayed on every implementation type of the ring in every operator form with the full observation compared, and seeded cancellation-heavy histories of the real types (stored term list as iterated, nterms, is_zero, is_one, is_const, lead_term, lead_deg, == against every register, eval, coeff, inv, monomial orders and arithmetic) are validated event by event against the spec.",
             note="Trusted: TLC, BigNum/Rings/Polys.tla (model-checked), the harness' projection (iteration of the stored map, deg()/MultiDeg::iter for stored exponents). Machine coefficient types only inside a no-overflow envelope; eval only where the API admits it (usize exponents over i64/BigInt); multivariate indices 0..3.", design="§3 C16"),
}
PENDING = "not yet bound to the specification in this round (see DESIGN.md section 3 for the planned spec and binding)"
m = {
 "version": 1,
 "setup_cmd": "cd /verif/harness && cargo build --release --offline",
 "hooks": {"guard": "yui_verif", "enable": "RUSTFLAGS=--cfg yui_verif (set in /verif/harness/.cargo/config.toml; the harness builds /repo's crates as path dependencies)",
           "baseline_off_cmd": "cd /repo && cargo test --workspace --no-fail-fast --offline", "source_commits": [], "add_only": True},
 "engines": [
   {"name": "tlc", "path": "bin/tlcw", "serves_properties": sorted(CHECKS), "kind_free_text": "TLC 1.8.0 explicit-state model checker over spec/ (MC_* exhaustive configs, Gen_* behaviour generators, Trace_* trace validators)"},
   {"name": "yv", "path": "harness", "serves_properties": sorted(CHECKS), "kind_free_text": "Rust conformance harness: replays TLC-generated behaviours into the real crates and records ndjson traces from them"},
   {"name": "check", "path": "bin/check", "serves_properties": sorted(CHECKS), "kind_free_text": "driver: build, MC, spec->impl replay, impl->spec trace validation, evidence, verdict"}],
 "checks": [], "not_applicable": [],
 "notes": "All checks: bin/check <id> --tier quick|thorough; exit 0 held / 1 VIOLATION / 2 tool error. Known findings: known_findings.json."
}
for p in props:
    i = p["id"]
    if i in CHECKS:
        c = CHECKS[i]
        m["checks"].append({"property_id": i, "quick_cmd": "bin/check %s --tier quick" % i, "thorough_cmd": "bin/check %s --tier thorough" % i,
                            "evidence_file": "/verif/evidence/%s.json" % i, "replay_cmd_template": "bin/check %s --replay {path}" % i, "engine": "check",
                            "level_claimed": {"category": "model_checking", "text": c["text"], "design_ref": c["design"]}, "level_note": c["note"], "technique": c["technique"]})
    else:
        m["not_applicable"].append({"property_id": i, "reason": PENDING})
json.dump(m, open(os.path.join(ROOT, "MANIFEST.json"), "w"), indent=1)
print("checks:", [c["property_id"] for c in m["checks"]])
