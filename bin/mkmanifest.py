#!/usr/bin/env python3
"""Regenerates /verif/MANIFEST.json from the table below (single source of truth for the interface)."""
import json, os
ROOT = os.path.dirname(os.path.dirname(os.path.abspath(__file__)))
props = [json.loads(l) for l in open(os.path.join(ROOT, "properties.jsonl"))]
CHECKS = {
 "C17": dict(technique="TLA+ spec BitSeq (register machine over lists of booleans); TLC exhaustive for MaxLen=4; TLC-enumerated boundary transitions at MaxLen=64 replayed into yui::bitseq::BitSeq; recorded random histories validated by Trace_BitSeq",
             text="TLC checks the list-of-booleans machine exhaustively for MaxLen=4 (all register states, actions, arguments, order axioms); every TLC transition of the length-0/32/64 boundary family becomes one implementation test, and seeded random histories of the real type are validated event by event against the spec (register file, result class, returned value).",
             note="Trusted: TLC, the harness' projection of a BitSeq through the public (as_u64,len) pair. Out-of-range indices are not issued.", design="§3 C17"),
 "C14": dict(technique="TLA+ spec Scalars (register machine over exact rings, BigNum limb arithmetic in TLA+); TLC exhaustive on small complete domains with expected values replayed on all 16 scalar types in six operator forms; recorded histories validated by Trace_Scalars",
             text="TLC model-checks the bignum and ring libraries against the ring axioms, enumerates every operand pair/operation of the small domains with the canonical expected value (replayed on every scalar type and operator form), and validates seeded histories of the real types (values to 10^300+, machine ints near their limits) event by event: every result must be the exact ring element in canonical form and every comparison the mathematical answer.",
             note="Trusted: TLC, BigNum.tla/Rings.tla (model-checked), decimal->limb chunking in the harness, Bezout witnesses re-multiplied by TLC. Machine-integer ops only inside the representable envelope.", design="§3 C14"),
 "C15": dict(technique="TLA+ spec EucOps (relational contracts over exact rings: a=qb+r with norm decrease, exact rounding, gcd/Bezout/lcm, units, normalisation); TLC shows the contracts satisfiable and answer-determining on complete small domains; TLC-enumerated operand domains + random operands to 10^700 run through the library and every answer validated by Trace_EucOps",
             text="Every Euclidean operation of 20 implementation types is recorded with its answer and TLC evaluates the mathematical contract on it using exact limb arithmetic; the contracts themselves are model-checked against a reference implementation and for uniqueness of the accepted answer on complete small domains.",
             note="Trusted: TLC, BigNum/Rings libraries (model-checked), cofactors for divisibility computed by the library's own division and re-multiplied by TLC.", design="§3 C15"),
 "C13": dict(technique="TLA+ spec MatAlg (dense meaning of every container operation + Trans state machine over dense products); TLC checks the matrix operators against algebraic laws and all short Trans histories; TLC-enumerated small matrices and random operands with explicit zeros / zero dimensions run through the library, every result validated by Trace_MatAlg",
             text="Each container call of the real SpMat / SpVec / Mat / Trans is recorded with operands and result and TLC recomputes the mathematical result from the definition (Matrices.tla) and compares entrywise; Trans is validated as a state machine whose abstract state is the pair of dense products.",
             note="Trusted: TLC, Matrices.tla/Rings.tla (model-checked against laws), the harness' dense projection through iter().", design="§3 C13"),
 "C12": dict(technique="TLA+ spec Kernels (defining equations of triangular solve / Schur complement + transfer maps / direct-sum decomposition, same answer across thread pools) + GroupCols (union-find under a mutex, check and union as separate critical sections, every interleaving on every intersection graph); recorded calls on pools of 1/2/16 threads validated by Trace_Kernels",
             text="TLC explores all interleavings of the check-then-union tasks of the column grouping on every graph with 4 (thorough: 5) columns (safety, completeness, termination), checks the kernel contracts against textbook reference formulas on complete small domains, and validates every recorded call of the real kernels (pools of 1, 2, 16 threads, repeated calls) against the defining equations.",
             note="Trusted: TLC, Matrices.tla. Thread schedules of the real code are sampled (three pool sizes), the interleaving quantifier is discharged on the GroupCols model.", design="§3 C12"),
 "C11": dict(technique="TLA+ spec Pivot (shared pivot table, per-task snapshot prefix, one action per critical section: Start / Search / Lock=Retry|Commit); TLC explores every interleaving on every 3x3 (thorough 3x4) pattern with Acyclic, distinctness, termination; TLC behaviours replayed as forced schedules into the real threads through cfg(yui_verif) gate hooks; all recorded events validated by Trace_Pivot",
             text="Exhaustive interleaving exploration of the design on small matrices, plus conformance of the real threads in both directions: schedules generated by TLC are forced on the real worker threads at the hook points, and every run (forced, randomly gated, or free on 1..16 threads) is validated event by event against the spec with the acyclicity invariant evaluated after every commit and the result contract on the returned list.",
             note="Trusted: TLC; hooks emit Retry/Commit under the write lock; the controller realises schedules only as far as rayon makes the tasks available (non-applicable steps are counted and skipped).", design="§3 C11"),
 "C09": dict(technique="TLA+ specs SnfSteps (elementary-operation state machine with invariant T = P A Q, P Pi = I, Q Qi = I, explored by TLC over all small inputs and operation sequences) and SNF (relational result contract incl. gcd-of-minors definition); recorded snf calls over 11 rings x 7 flag subsets validated by Trace_SNF",
             text="TLC checks the design (each elementary operation preserves the transform invariant; the diagonal fix-up identity) and that the result contract determines the Smith form on complete small domains; every recorded call of the real routine (planted invariant factors, rank-deficient, zero-dimensional, entries to 10^100/10^300, all flag subsets, deadline) is validated against the contract with exact limb arithmetic.",
             note="Trusted: TLC, Rings/Matrices libraries. Termination is observed with a 30 s deadline per call (normal: milliseconds).", design="§3 C09"),
 "C10": dict(technique="TLA+ spec LLL (HNF and LLL-reducedness contracts with Gram determinants defined from first principles; design-level LLL step machine model-checked from every small basis: lattice preserved, potential decreases, termination, result reduced); recorded lll / lll_hnf calls over Z, Z[i], Z[w] validated by Trace_LLL",
             text="TLC runs the LLL step machine to completion from every 2x2/2x3 basis with small entries (invariants, potential decrease, termination, reducedness of the result), and validates every recorded result of the real lll_hnf and lll (any shape and rank for HNF, entries up to hundreds of digits, all transform-flag combinations) against the contracts using exact limb arithmetic.",
             note="Trusted: TLC, Matrices/Rings libraries. No step hooks: the internal det/lambda updates are checked only through the results. Termination by a 30 s deadline per call.", design="§3 C10"),
 "C20": dict(technique="TLA+ spec Cli (decision table Outcome(cmd,-t,-c,-m,-r,input class) over tokenised -c values + grammar of table cells); TLC exhaustive on the whole option product; every product point run on the freshly built ykh binary, stdout lexed and compared with a direct library call; recorded invocations validated by Trace_Cli",
             text="TLC checks the decision table on the complete option product (every point has exactly one outcome, error points never show a table, theorems of the table, round trip of the cell grammar); TLC then prints the product with the demanded outcome and the library call (ring, h, t, flags), the harness runs the freshly built binary at every point and at seeded random instances, lexes the printed table and Trace_Cli requires exit/stdout class to match and the printed non-zero cells to be exactly the groups KhHomology / into_bigraded / KhComplex::gen_grid return at the same (i,j).",
             note="Trusted: TLC, the Rust lexer of table cells, process spawning. Only the unicode format and -t -c -m -r. ckh's generator table is compared exactly only where the simplified complex is determined by the parameters (fields, homogeneous h,t); elsewhere by ring, well-formedness and Euler characteristic.", design="§3 C20"),
}
PENDING = "not yet bound to the specification in this round (see DESIGN.md section 3 for the planned spec and binding)"
m = {
 "version": 1,
 "setup_cmd": "cd /verif/harness && cargo build --release --offline",
 "hooks": {"guard": "yui_verif", "enable": "RUSTFLAGS=--cfg yui_verif (set in /verif/harness/.cargo/config.toml; the harness builds /repo's crates as path dependencies)",
           "baseline_off_cmd": "cd /repo && cargo test --workspace --no-fail-fast --offline", "source_commits": ["c6e096b"], "add_only": True},
 "engines": [
   {"name": "tlc", "path": "bin/tlcw", "serves_properties": sorted(CHECKS), "kind_free_text": "TLC 1.8.0 explicit-state model checker over spec/ (MC_* exhaustive configs, Gen_* behaviour generators, Trace_* trace validators)"},
   {"name": "yv", "path": "harness", "serves_properties": sorted(CHECKS), "kind_free_text": "Rust conformance harness: replays TLC-generated behaviours into the real crates and records ndjson traces from them"},
   {"name": "check", "path": "bin/check", "serves_properties": sorted(CHECKS), "kind_free_text": "driver: build, MC, spec->impl replay, impl->spec trace validation, evidence, verdict"}],
 "checks": [], "not_applicable": [],
 "notes": "All checks: bin/check <id> --tier quick|thorough; exit 0 held / 1 VIOLATION / 2 tool error. Known findings: known_findings.json."
}
for p in props:
    i = p["id"]
    if i in CHECKS:
        c = CHECKS[i]
        m["checks"].append({"property_id": i, "quick_cmd": "bin/check %s --tier quick" % i, "thorough_cmd": "bin/check %s --tier thorough" % i,
                            "evidence_file": "/verif/evidence/%s.json" % i, "replay_cmd_template": "bin/check %s --replay {path}" % i, "engine": "check",
                            "level_claimed": {"category": "model_checking", "text": c["text"], "design_ref": c["design"]}, "level_note": c["note"], "technique": c["technique"]})
    else:
        m["not_applicable"].append({"property_id": i, "reason": PENDING})
json.dump(m, open(os.path.join(ROOT, "MANIFEST.json"), "w"), indent=1)
print("checks:", [c["property_id"] for c in m["checks"]])
