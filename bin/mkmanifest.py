#!/usr/bin/env python3
"""Regenerates /verif/MANIFEST.json from the table below (single source of truth for the interface)."""
import json, os
ROOT = os.path.dirname(os.path.dirname(os.path.abspath(__file__)))
props = [json.loads(l) for l in open(os.path.join(ROOT, "properties.jsonl"))]
CHECKS = {
 "C17": dict(technique="TLA+ spec BitSeq (register machine over lists of booleans); TLC exhaustive for MaxLen=4; TLC-enumerated boundary transitions at MaxLen=64 replayed into yui::bitseq::BitSeq; recorded random histories validated by Trace_BitSeq",
             text="TLC checks the list-of-booleans machine exhaustively for MaxLen=4 (all register states, actions, arguments, order axioms); every TLC transition of the length-0/32/64 boundary family becomes one implementation test, and seeded random histories of the real type are validated event by event against the spec (register file, result class, returned value).",
             note="Trusted: TLC, the harness' projection of a BitSeq through the public (as_u64,len) pair. Out-of-range indices are not issued.", design="§3 C17"),
 "C18": dict(technique="TLA+ specs Link (PD codes: incidence, strand-through components, admissible orientations, signs, writhe, resolutions/circles, Seifert smoothing, genus-0 planarity, moves) and Braid (closure); TLC exhaustive on all codes with <=2 crossings, all short braid words and all move histories from them; TLC-enumerated diagrams with expected values replayed into yui_link::Link / Braid::closure; recorded histories on catalogue diagrams and braid closures validated by Trace_Link",
             text="TLC checks on a small complete family that two independent descriptions of components, orientations and circles agree, that writhe/component count predicted by the moves (mirror negates, renumber/reorder keep, kink adds its sign, closure = exponent sum / cycle count) equal the first-principles values, and that every state resolves to the edge-identification circles; every generated diagram (all states) and braid word becomes an implementation test, and seeded histories of the real Link/Braid (special kink codes, catalogue, closures on 2..8 strands incl. components that only pass over) are validated event by event.",
             note="Trusted: TLC, the harness' projection through Link::data()/Path::edges(), the harness' own diagram surgery for generating inputs (re-derived by TLC). Valid PD code = labels twice + orientable + genus 0. Sign vectors of components that never pass under are accepted in either orientation.", design="§3 C18"),
 "C04": dict(technique="TLA+ spec Jones (Kauffman state sum on the PD code over Link.tla, Laurent polynomials as functions, Euler characteristic of a bigraded table, isotopy-move machine with the polynomial as ghost); TLC exhaustive invariance under braid relations / Markov moves / R1 kinks / mirror / products on a small family with literature values pinned; state-sum polynomials replayed against jones_polynomial; recorded polynomials, Khovanov tables and move histories validated by Trace_Jones",
             text="TLC model-checks that the spec's state-sum polynomial is invariant under every isotopy move of the machine, inverts under mirror and multiplies under disjoint union on all short braid words and their move histories; every diagram of that family is replayed against jones_polynomial; for catalogue diagrams and braid closures the recorded polynomial must equal the state sum TLC computes from the PD code (up to 8/9 crossings), stay constant along recorded isotopy moves, invert under mirror, and equal the graded Euler characteristic of every recorded Khovanov table (two library routes, up to 13 crossings).",
             note="Trusted: TLC, Link.tla/Braid.tla (model-checked in C18), projection of LPoly to (exponent, coefficient) pairs and of Summand::rank(). Above the absolute bound only relations are checked.", design="§3 C04"),
 "C14": dict(technique="TLA+ spec Scalars (register machine over exact rings, BigNum limb arithmetic in TLA+); TLC exhaustive on small complete domains with expected values replayed on all 16 scalar types in six operator forms; recorded histories validated by Trace_Scalars",
             text="TLC model-checks the bignum and ring libraries against the ring axioms, enumerates every operand pair/operation of the small domains with the canonical expected value (replayed on every scalar type and operator form), and validates seeded histories of the real types (values to 10^300+, machine ints near their limits) event by event: every result must be the exact ring element in canonical form and every comparison the mathematical answer.",
             note="Trusted: TLC, BigNum.tla/Rings.tla (model-checked), decimal->limb chunking in the harness, Bezout witnesses re-multiplied by TLC. Machine-integer ops only inside the representable envelope.", design="§3 C14"),
}
PENDING = "not yet bound to the specification in this round (see DESIGN.md section 3 for the planned spec and binding)"
m = {
 "version": 1,
 "setup_cmd": "cd /verif/harness && cargo build --release --offline",
 "hooks": {"guard": "yui_verif", "enable": "RUSTFLAGS=--cfg yui_verif (set in /verif/harness/.cargo/config.toml; the harness builds /repo's crates as path dependencies)",
           "baseline_off_cmd": "cd /repo && cargo test --workspace --no-fail-fast --offline", "source_commits": [], "add_only": True},
 "engines": [
   {"name": "tlc", "path": "bin/tlcw", "serves_properties": sorted(CHECKS), "kind_free_text": "TLC 1.8.0 explicit-state model checker over spec/ (MC_* exhaustive configs, Gen_* behaviour generators, Trace_* trace validators)"},
   {"name": "yv", "path": "harness", "serves_properties": sorted(CHECKS), "kind_free_text": "Rust conformance harness: replays TLC-generated behaviours into the real crates and records ndjson traces from them"},
   {"name": "check", "path": "bin/check", "serves_properties": sorted(CHECKS), "kind_free_text": "driver: build, MC, spec->impl replay, impl->spec trace validation, evidence, verdict"}],
 "checks": [], "not_applicable": [],
 "notes": "All checks: bin/check <id> --tier quick|thorough; exit 0 held / 1 VIOLATION / 2 tool error. Known findings: known_findings.json."
}
for p in props:
    i = p["id"]
    if i in CHECKS:
        c = CHECKS[i]
        m["checks"].append({"property_id": i, "quick_cmd": "bin/check %s --tier quick" % i, "thorough_cmd": "bin/check %s --tier thorough" % i,
                            "evidence_file": "/verif/evidence/%s.json" % i, "replay_cmd_template": "bin/check %s --replay {path}" % i, "engine": "check",
                            "level_claimed": {"category": "model_checking", "text": c["text"], "design_ref": c["design"]}, "level_note": c["note"], "technique": c["technique"]})
    else:
        m["not_applicable"].append({"property_id": i, "reason": PENDING})
json.dump(m, open(os.path.join(ROOT, "MANIFEST.json"), "w"), indent=1)
print("checks:", [c["property_id"] for c in m["checks"]])
