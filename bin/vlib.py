"""Shared driver machinery for /verif checks.

A check = MC (TLC exhaustive on the spec) + A (TLC-generated behaviours replayed into the code)
        + B (events recorded from the code validated by TLC against the spec).
Exit codes: 0 property held on everything explored; 1 with `VIOLATION property=<id> replay=<path>`;
2 tool error / timeout of the tooling (never a verdict).
"""
import json, os, re, subprocess, sys, time, hashlib, shutil

ROOT = os.environ.get("VERIF_ROOT") or os.path.dirname(os.path.dirname(os.path.abspath(__file__)))
BUILD = os.path.join(ROOT, ".build")
SPEC = os.path.join(ROOT, "spec")
HARNESS = os.path.join(ROOT, "harness")
# VERIF_REPO=<dir>: build the harness against another checkout of the repository (used to try seeded changes
# without touching /repo); its crates override the /repo path dependencies, with a separate target directory.
REPO = os.environ.get("VERIF_REPO") or "/repo"
ALT = REPO != "/repo"
TARGET = os.path.join(BUILD, "harness-target-alt" if ALT else "harness-target")
YV = os.path.join(TARGET, "release", "yv")
TLCW = os.path.join(ROOT, "bin", "tlcw")
KNOWN = os.path.join(ROOT, "known_findings.json")


class ToolError(Exception):
    pass


def sh(cmd, timeout=None, env=None, cwd=None, capture=True):
    e = dict(os.environ)
    if env:
        e.update(env)
    try:
        p = subprocess.run(cmd, cwd=cwd, env=e, timeout=timeout, stdout=subprocess.PIPE if capture else None,
                           stderr=subprocess.STDOUT if capture else None, text=True, errors="replace")
    except subprocess.TimeoutExpired as ex:
        out = ex.stdout or ""
        if isinstance(out, bytes):
            out = out.decode(errors="replace")
        return 124, out
    return p.returncode, (p.stdout or "")


class Ctx:
    def __init__(self, pid, tier, seed):
        self.pid, self.tier, self.seed = pid, tier, seed
        self.t0 = time.time()
        self.cov = {"states": 0, "transitions": 0, "traces_validated_against_impl": 0, "samples": [],
                    "evaluations": 0, "distinct_nontrivial": 0, "rule": "", "mc_runs": [], "conformance": []}
        self.assumptions = []
        self.violations = []     # (key, description, replay_path)
        self.known_hits = []
        self.work = os.path.join(BUILD, "work", pid)
        shutil.rmtree(self.work, ignore_errors=True)
        os.makedirs(self.work, exist_ok=True)
        os.makedirs(os.path.join(ROOT, "replays"), exist_ok=True)
        os.makedirs(os.path.join(ROOT, "evidence"), exist_ok=True)
        self.known = {"findings": [], "fixed": []}
        if os.path.exists(KNOWN):
            self.known = json.load(open(KNOWN))

    @property
    def thorough(self):
        return self.tier == "thorough"

    def path(self, name):
        return os.path.join(self.work, name)

    def log(self, *a):
        print("[%s %6.1fs]" % (self.pid, time.time() - self.t0), *a, flush=True)

    # ------------------------------------------------------------------ harness
    def build_harness(self):
        self.log("building harness against /repo working tree (cfg yui_verif)")
        cmd = ["cargo", "build", "--release", "--offline"]
        if ALT:
            crates = ["yui", "yui-matrix", "yui-homology", "yui-link", "yui-khovanov"]
            cmd += ["--target-dir", TARGET, "--config", "paths=[%s]" % ",".join('"%s/%s"' % (REPO, c) for c in crates)]
        rc, out = sh(cmd, cwd=HARNESS, timeout=3000)
        if rc != 0:
            print(out[-6000:])
            raise ToolError("harness build failed (rc=%d)" % rc)

    def yv(self, *args, timeout=3600, env=None):
        cmd = [YV] + [str(a) for a in args]
        rc, out = sh(cmd, timeout=timeout, env=env)
        if rc != 0:
            print(out[-4000:])
            raise ToolError("harness command failed rc=%d: %s" % (rc, " ".join(cmd)))
        summ, mism = {}, []
        for ln in out.splitlines():
            if ln.startswith("YV-SUMMARY "):
                _, kind, js = ln.split(" ", 2)
                summ[kind] = json.loads(js)
            elif ln.startswith("YV-MISMATCH "):
                mism.append(json.loads(ln[len("YV-MISMATCH "):]))
        return summ, mism, out

    # ------------------------------------------------------------------ TLC
    def _tlc(self, subdir, module, cfg, workers, timeout, extra=(), env=None, java="", tag=None):
        tag = tag or os.path.splitext(os.path.basename(cfg))[0]
        meta = os.path.join(BUILD, "tlc", "%s_%s" % (self.pid, tag))
        shutil.rmtree(meta, ignore_errors=True)
        e = {"TLC_JAVA_OPTS": java}
        if env:
            e.update(env)
        cmd = [TLCW, "-workers", str(workers), "-metadir", meta, "-cleanup", "-noGenerateSpecTE",
               "-config", cfg] + list(extra) + [module + ".tla"]
        t = time.time()
        rc, out = sh(cmd, cwd=os.path.join(SPEC, subdir), timeout=timeout, env=e)
        shutil.rmtree(meta, ignore_errors=True)
        logp = self.path("tlc_%s.log" % tag)
        open(logp, "w").write(out)
        return rc, out, time.time() - t, logp

    @staticmethod
    def _stats(out):
        m = re.search(r"(\d+) states generated, (\d+) distinct states found", out)
        gen, dist = (int(m.group(1)), int(m.group(2))) if m else (0, 0)
        acts = {}
        zero = []
        for m in re.finditer(r"^<(\w+) line \d+, col \d+ to line \d+, col \d+ of module (\w+)(?: \([\d ]+\))?>: (\d+):(\d+)", out, re.M):
            name = m.group(1)
            d, c = int(m.group(3)), int(m.group(4))
            a = acts.setdefault(name, [0, 0])
            a[0] += d
            a[1] += c
        # an action is never taken when the counts of *all* its coverage lines (one per syntactic location) are zero
        zero = [n for n, v in acts.items() if v[1] == 0 and n != "Init"]
        acts["__never_taken__"] = zero
        return gen, dist, acts

    def _spec_hash(self):
        h = hashlib.sha1()
        for root, _, files in sorted(os.walk(SPEC)):
            for f in sorted(files):
                if f.endswith(".tla") or f.endswith(".cfg"):
                    h.update(f.encode()); h.update(open(os.path.join(root, f), "rb").read())
        return h.hexdigest()

    def tlc_mc(self, module, cfg, workers=8, timeout=1800, must_cover=(), subdir="mc", extra=(), simulate=None, coverage=False, cache=False):
        """Exhaustive (or simulated) model check. Any invariant violation of the *spec* is a tool error:
        the spec is supposed to hold; it is the oracle.
        cache=True (only for the pure operator libraries, which do not depend on /repo): a successful run is remembered
        under .build/cache keyed by the content of every spec file, so the checks of one session do not repeat it."""
        cdir = os.path.join(BUILD, "cache")
        ckey = os.path.join(cdir, "%s_%s_%s.json" % (module, os.path.splitext(cfg)[0], self._spec_hash()[:16]))
        if cache and os.path.exists(ckey):
            rec = json.load(open(ckey))
            rec["reused_from_cache_of_this_session"] = True
            # not counted in states / transitions of this run: it was not executed by this run
            self.cov.setdefault("library_model_checks_reused", []).append(rec)
            self.log("MC %s %s: reused (unchanged spec files; %d distinct states, ran %.1fs)" % (module, cfg, rec["distinct_states"], rec["wall_s"]))
            return rec["states_generated"], rec["distinct_states"], {}
        coverage = coverage or bool(must_cover)
        ex = (["-coverage", "1"] if coverage else []) + list(extra)
        if simulate:
            ex += ["-simulate", simulate]
        rc, out, dt, logp = self._tlc(subdir, module, cfg, workers, timeout, ex, java="-Xss256m")
        gen, dist, acts = self._stats(out)
        ok = ("Model checking completed. No error has been found." in out) or (simulate and rc in (0, 124) and "Error:" not in out)
        if not ok:
            print(out[-5000:])
            raise ToolError("TLC model check of %s/%s did not complete cleanly (rc=%d), log %s" % (module, cfg, rc, logp))
        never = acts.pop("__never_taken__", [])
        uncovered = [a for a in must_cover if acts.get(a, [0, 0])[1] == 0] + never
        if uncovered and not simulate:
            raise ToolError("vacuous model: actions never taken in %s: %s" % (module, uncovered))
        self.cov["states"] += dist
        self.cov["transitions"] += gen
        self.cov["mc_runs"].append({"module": module, "cfg": cfg, "distinct_states": dist, "states_generated": gen,
                                    "wall_s": round(dt, 1), "exhaustive": not simulate,
                                    "actions": {k: v[1] for k, v in sorted(acts.items())}})
        if cache:
            os.makedirs(cdir, exist_ok=True)
            json.dump(self.cov["mc_runs"][-1], open(ckey, "w"))
        self.log("MC %s %s: %d distinct / %d generated in %.1fs" % (module, cfg, dist, gen, dt))
        return gen, dist, acts

    def tlc_gen(self, module, cfg, workers=4, timeout=1800, subdir="gen", extra=(), out_name=None):
        """Run a generator spec; collect the JSON objects it prints (one per behaviour/transition)."""
        rc, out, dt, logp = self._tlc(subdir, module, cfg, workers, timeout, extra, java="-Xss256m")
        if "Model checking completed. No error has been found." not in out and "-simulate" not in extra:
            print(out[-5000:])
            raise ToolError("TLC generator %s/%s failed (rc=%d), log %s" % (module, cfg, rc, logp))
        gen, dist, _a = self._stats(out)
        objs = []
        for ln in out.splitlines():
            if ln.startswith('"{') or ln.startswith('"['):
                objs.append(json.loads(json.loads(ln)))
        path = self.path(out_name or ("gen_%s.ndjson" % os.path.splitext(cfg)[0]))
        with open(path, "w") as f:
            for o in objs:
                f.write(json.dumps(o, separators=(",", ":")) + "\n")
        self.cov["states"] += dist
        self.cov["transitions"] += gen
        self.cov["mc_runs"].append({"module": module, "cfg": cfg, "distinct_states": dist, "states_generated": gen,
                                    "wall_s": round(dt, 1), "behaviours_emitted": len(objs)})
        self.log("GEN %s %s: %d behaviours, %d states in %.1fs" % (module, cfg, len(objs), dist, dt))
        return path, objs

    def tlc_trace(self, module, cfg, trace, timeout=1800, subdir="trace", env=None, tag=None):
        """Validate a recorded ndjson trace. Returns dict(accepted, n, at, event, invariant, log)."""
        e = {"TRACE": trace}
        if env:
            e.update(env)
        rc, out, dt, logp = self._tlc(subdir, module, cfg, 1, timeout, (), env=e,
                                      java="-Xss1g -Xmx8g -Dtlc2.tool.queue.IStateQueue=StateDeque", tag=tag)
        gen, dist, _ = self._stats(out)
        r = {"accepted": False, "n": 0, "at": None, "event": None, "invariant": None, "log": logp, "wall_s": round(dt, 1), "states": dist, "module": module, "cfg": cfg}
        m = re.search(r'<<"TRACE_ACCEPTED", (\d+)>>', out)
        if m and "Model checking completed. No error has been found." in out:
            r["accepted"], r["n"] = True, int(m.group(1))
        else:
            m = re.search(r'<<"TRACE_REJECTED", (\d+), (".*")>>', out)
            mi = re.search(r"Invariant (\w+) is violated", out)
            if m:
                r["at"] = int(m.group(1))
                try:
                    r["event"] = json.loads(json.loads(m.group(2)))
                except Exception:
                    r["event"] = m.group(2)
            elif mi:
                r["invariant"] = mi.group(1)
                ml = re.findall(r"^/\\ l = (\d+)", out, re.M)
                r["at"] = int(ml[-1]) - 1 if ml else None
            else:
                print(out[-5000:])
                raise ToolError("TLC trace validation %s failed without a verdict (rc=%d), log %s" % (module, rc, logp))
        self.cov["states"] += dist
        self.cov["transitions"] += gen
        self.log("TRACE %s %s: %s (%d states, %.1fs)" % (module, os.path.basename(trace),
                                                          "accepted %d events" % r["n"] if r["accepted"] else "REJECTED at %s inv=%s" % (r["at"], r["invariant"]), dist, dt))
        return r

    # ------------------------------------------------------------------ verdicts
    def save_replay(self, name, obj):
        p = os.path.join(ROOT, "replays", "%s_%s.json" % (self.pid, name))
        with open(p, "w") as f:
            json.dump(obj, f, indent=1)
        return p

    def violation(self, key, what, replay_obj):
        """key identifies the failing input / call site (matched against known_findings.json)."""
        for k in self.known.get("findings", []):
            if k.get("property") == self.pid and k.get("key") == key:
                if key not in [h[0] for h in self.known_hits]:
                    self.known_hits.append((key, k.get("what", what)))
                return
        if key in [v[0] for v in self.violations]:
            return
        h = hashlib.sha1(key.encode()).hexdigest()[:10]
        p = self.save_replay(h, {"property": self.pid, "key": key, "what": what, "seed": self.seed, "tier": self.tier, "replay": replay_obj})
        self.violations.append((key, what, p))

    def trace_verdict(self, r, trace, what, key_prefix="trace"):
        """Turn a trace-validation result into a violation (with the event prefix as replay)."""
        if r["accepted"]:
            self.cov["traces_validated_against_impl"] += 1
            return True
        ev = r["event"]
        lines = open(trace).read().splitlines()
        at = r["at"] or len(lines)
        prefix = lines[max(0, at - 30):at]
        # the events from the last history start up to the rejected one: enough to re-validate the violation (bin/check <id> --replay)
        start = 0
        for k in range(min(at, len(lines)) - 1, -1, -1):
            try:
                o = json.loads(lines[k])
            except Exception:
                continue
            if o.get("op") in ("reset", "newcase", "init", "cr_start") or o.get("kind") == "setup":
                start = k
                break
        full_prefix = lines[start:at][-4000:]
        opname = ev.get("op") if isinstance(ev, dict) else None
        key = "%s:%s:%s" % (key_prefix, opname or r["invariant"], hashlib.sha1((lines[at - 1] if 0 < at <= len(lines) else "").encode()).hexdigest()[:8])
        self.violation(key, "%s: event %s of %s is not a step of the specification (invariant=%s): %s" % (what, at, os.path.basename(trace), r["invariant"], json.dumps(ev)[:600]),
                       {"trace_file": trace, "rejected_at_line": at, "invariant": r["invariant"], "last_events": prefix, "tlc_log": r["log"],
                        "trace_module": r.get("module"), "trace_cfg": r.get("cfg"), "trace_prefix": full_prefix})
        return False

    def replay_trace(self, path):
        """bin/check <id> --replay <file>: re-validate the stored event prefix of a trace violation with TLC."""
        obj = json.load(open(path))
        rp = obj.get("replay", {})
        print("property=%s key=%s\n%s" % (obj.get("property"), obj.get("key"), obj.get("what", "")[:1500]))
        if not isinstance(rp, dict) or not rp.get("trace_prefix") or not rp.get("trace_module"):
            print(json.dumps(rp, indent=1)[:6000])
            return 0
        tf = self.path("replay.ndjson")
        open(tf, "w").write("\n".join(rp["trace_prefix"]) + "\n")
        r = self.tlc_trace(rp["trace_module"], rp["trace_cfg"], tf, timeout=1800, tag="replay")
        if r["accepted"]:
            print("REPLAY: the stored events are accepted by the specification now (the violation does not reproduce on the stored prefix)")
            return 0
        print("REPLAY: reproduced - event %s of the stored prefix is not a step of the specification (invariant=%s): %s" % (r["at"], r["invariant"], json.dumps(r["event"])[:1500]))
        print("VIOLATION property=%s replay=%s" % (self.pid, path))
        self.replay_line_printed = True
        return 1

    def add_samples(self, items, limit=3):
        for it in items[:limit]:
            s = json.dumps(it)
            self.cov["samples"].append(it if len(s) < 1500 else s[:1500] + "...")

    def finish(self):
        wall = time.time() - self.t0
        ev = {"property_id": self.pid, "tier": self.tier, "seed": self.seed, "level": "model_checking",
              "coverage": self.cov, "assumptions": self.assumptions, "wall_s": round(wall, 1),
              "violations": len(self.violations)}
        if not self.cov["samples"]:
            self.cov["samples"] = ["(no sample recorded)"]
        self.cov["known_findings_reproduced"] = [k for k, _ in self.known_hits]
        with open(os.path.join(ROOT, "evidence", "%s.json" % self.pid), "w") as f:
            json.dump(ev, f, indent=1)
        for k, w in self.known_hits:
            print("KNOWN-FINDING: property=%s %s" % (self.pid, w))
        for k, w, p in self.violations[:20]:
            print("  violation: %s" % w[:800])
            print("VIOLATION property=%s replay=%s" % (self.pid, p))
        self.log("done in %.1fs: %d violation(s), %d known finding(s)" % (wall, len(self.violations), len(self.known_hits)))
        return 1 if self.violations else 0
