"""C03 — the bigraded Khovanov tables over Z, Q, F2, F3 of one link are mutually consistent (universal coefficients,
two library routes, three integer types, F2 reduced/unreduced)."""
import copy, hashlib, json, os, re
from concurrent.futures import ThreadPoolExecutor
import vlib

TRACE_MOD, TRACE_CFG = "Trace_UCT", "Trace_UCT.cfg"


def split_links(path, per_chunk, outdir, stem):
    """Split the ndjson trace at `link` events into chunks of about per_chunk events."""
    chunks, cur = [], []
    for ln in open(path):
        if '"op":"link"' in ln and len(cur) >= per_chunk:
            chunks.append(cur)
            cur = []
        cur.append(ln)
    if cur:
        chunks.append(cur)
    out = []
    for i, c in enumerate(chunks):
        p = os.path.join(outdir, "%s_%02d.ndjson" % (stem, i))
        open(p, "w").write("".join(c))
        out.append(p)
    return out


def report(ctx, ev, why, events):
    """One rejected table event -> violation(s) with keys that identify the input."""
    name, ring, route, red = ev.get("name"), ev.get("ring"), ev.get("route"), ev.get("red")
    rels = [w[0] for w in why] or ["unexplained"]
    for w in (why or [["unexplained", []]]):
        rel, cells = w[0], w[1]
        if rel == "route":
            key = "route-mismatch:%s" % name
            what = ("%s: the bigraded table obtained from the total homology (KhHomologyBigraded::new, ring %s, %s) differs from the homology of the bigraded pieces "
                    "(KhComplexBigraded::homology) at bidegrees %s" % (name, ring, "reduced" if red else "unreduced", json.dumps(cells)))
        elif rel == "panic":
            key = "panic:%s:%s:%s:%s" % (name, ring, route, red)
            what = "%s: computing the %s %s table over %s panicked: %s" % (name, "reduced" if red else "unreduced", route, ring, ev.get("panic"))
        else:
            key = "%s-mismatch:%s:%s:%s" % (rel, name, ring, route)
            text = {"inttype": "differs from the i64 table although both are integer tables through the bigraded pieces",
                    "rankQ": "has ranks different from the free ranks over Z",
                    "uct": "has dimensions different from rank_Z(i,j) + #{p | order at (i,j)} + #{p | order at (i+1,j)}",
                    "f2red": "violates unreduced(i,j) = reduced(i,j-1) + reduced(i,j+1) over F2",
                    "malformed": "is not a well-formed table (negative rank, unit or zero torsion order, torsion over a field, repeated bidegree)"}.get(rel, rel)
            what = "%s: the %s %s table over %s %s at bidegrees %s" % (name, "reduced" if red else "unreduced", route, ring, text, json.dumps(cells))
        ctx.violation(key, what, {"name": name, "relation": rel, "cells": cells, "events": events})
    return rels


def validate_chunk(ctx, path, tag, max_rounds=16):
    """Validate; on a rejected table event report it, drop it and validate the rest again, so that every event is judged."""
    rejected, rounds = [], 0
    cur = path
    while True:
        rounds += 1
        r = ctx.tlc_trace(TRACE_MOD, TRACE_CFG, cur, timeout=1500, tag="%s_r%d" % (tag, rounds))
        if r["accepted"]:
            return rejected, r["n"]
        if r["invariant"] == "DriverOK" or "Invariant DriverOK is violated" in open(r["log"]).read():
            raise vlib.ToolError("the driver reported a table out of order (event %s of %s); harness bug, not a verdict" % (r["at"], cur))
        lines = open(cur).read().splitlines()
        at = r["at"]
        obj = r["event"] if isinstance(r["event"], dict) else {}
        ev, why = obj.get("e", {}), obj.get("why", [])
        if not ev or at is None:
            raise vlib.ToolError("trace validation of %s rejected without a readable event (log %s)" % (cur, r["log"]))
        start = max(i for i in range(at) if '"op":"link"' in lines[i])
        ref = [l for l in lines[start:at] if '"route":"pieces"' in l and '"ring":"Z64"' in l and ('"red":%s' % ("true" if ev.get("red") else "false")) in l][:1]
        rels = report(ctx, ev, why, [lines[start]] + ref + [lines[at - 1]])
        rejected.append({"name": ev.get("name"), "ring": ev.get("ring"), "route": ev.get("route"), "red": ev.get("red"), "relations": rels})
        if rounds >= max_rounds:      # verdict is already a violation; do not spend more time on this chunk
            ctx.log("stopped validating %s after %d rejected events (the remaining events of this chunk are not judged)" % (os.path.basename(path), max_rounds))
            return rejected, 0
        drop = {at - 1}
        if ev.get("ring") == "Z64" and ev.get("route") == "pieces":       # the reference itself: nothing of this (link, red) can be judged
            for i in range(at, len(lines)):
                if '"op":"link"' in lines[i]:
                    break
                if json.loads(lines[i]).get("red") == ev.get("red"):
                    drop.add(i)
        cur = "%s.r%d" % (path, rounds)
        open(cur, "w").write("".join(l + "\n" for i, l in enumerate(lines) if i not in drop))


def selftest(ctx, trace, mutate, name, expect):
    """Binding self-test: corrupt one recorded field; TLC must reject exactly that event for the expected reason."""
    lines = [json.loads(l) for l in open(trace)]
    hit = None
    for i, e in enumerate(lines):
        e2 = mutate(copy.deepcopy(e))
        if e2 is not None:
            hit = (i, e2)
            break
    if hit is None:
        raise vlib.ToolError("binding self-test %s: no event to corrupt" % name)
    i, e2 = hit
    start = max(k for k in range(i + 1) if lines[k]["op"] == "link")
    p = ctx.path("selftest_%s.ndjson" % name)
    with open(p, "w") as f:
        for e in lines[start:i] + [e2] + lines[i + 1:i + 3]:
            f.write(json.dumps(e, separators=(",", ":")) + "\n")
    saved = (ctx.cov["states"], ctx.cov["transitions"])
    r = ctx.tlc_trace(TRACE_MOD, TRACE_CFG, p, timeout=600, tag="selftest_" + name)
    ctx.cov["states"], ctx.cov["transitions"] = saved
    why = [w[0] for w in (r["event"] or {}).get("why", [])] if isinstance(r["event"], dict) else []
    if r["accepted"] or r["at"] != i - start + 1 or expect not in why:
        raise vlib.ToolError("binding self-test %s failed: corrupted event was %s (reasons %s, expected %s)" % (
            name, "accepted" if r["accepted"] else "rejected at %s" % r["at"], why, expect))
    return {"corruption": name, "link": lines[start]["name"], "rejected_for": why}


def expected_counterexample(ctx):
    """MC_SplitByDegree with Mode = "min" (what collect_gen_info does): TLC must refute SplitAgrees on {(q1,2),(q2,3)}."""
    rc, out, dt, logp = ctx._tlc("mc", "MC_SplitByDegree", "MC_SplitByDegree.min.cfg", 2, 600, (), java="-Xss256m")
    if "Invariant SplitAgrees is violated" not in out:
        print(out[-3000:])
        raise vlib.ToolError("MC_SplitByDegree.min.cfg: the expected counterexample to SplitAgrees was not produced (log %s)" % logp)
    homs = re.findall(r"hom = <<(.*)>>", out)
    filed = re.findall(r"filed = \((.*)\)", out)
    pairs = [(int(a), int(b)) for a, b in re.findall(r"<<(-?\d+), (\d+)>>", homs[0])] if homs else []
    if len(pairs) != 2 or pairs[0][0] == pairs[1][0] or sorted(p[1] for p in pairs) != [2, 3]:
        raise vlib.ToolError("MC_SplitByDegree.min.cfg: counterexample is not of the form {(q1,2),(q2,3)}: %s" % homs[:1])
    gen, dist, _ = ctx._stats(out)
    ctx.cov["mc_runs"].append({"module": "MC_SplitByDegree", "cfg": "MC_SplitByDegree.min.cfg", "distinct_states": dist, "states_generated": gen, "wall_s": round(dt, 1),
                               "exhaustive": True, "expected_outcome": "Invariant SplitAgrees is violated",
                               "counterexample": {"summands_q_order": pairs, "filed_after_split": filed[-1] if filed else None}})
    ctx.cov["states"] += dist
    ctx.cov["transitions"] += gen
    ctx.log("MC MC_SplitByDegree (Mode=min): SplitAgrees refuted as expected on %s" % pairs)
    return pairs


def run(ctx):
    T = ctx.thorough
    trace = ctx.path("trace.ndjson")

    # ---- record (impl -> spec) runs while TLC model-checks the spec
    def do_record():
        return ctx.yv("c03", "record", "--seed", ctx.seed, "--tier", ctx.tier, "--out", trace, timeout=1500)
    def do_mc():
        # the contract of UCT.tla on all small complexes: definitional tables accepted, perturbed tables rejected
        ctx.tlc_mc("MC_UCT", "MC_UCT.thorough.cfg" if T else "MC_UCT.cfg", workers=6, timeout=1500, coverage=False)
        # the design model: invariant factors then split; the repaired split agrees, the code's split keeps the group but misplaces it
        ctx.tlc_mc("MC_SplitByDegree", "MC_SplitByDegree.primary.cfg", workers=4, timeout=900, must_cover=["Normalize", "Split"])
        if T:
            ctx.tlc_mc("MC_SplitByDegree", "MC_SplitByDegree.minfull.cfg", workers=4, timeout=900, coverage=False)
        return expected_counterexample(ctx)
    with ThreadPoolExecutor(max_workers=2) as ex:
        f_rec, f_mc = ex.submit(do_record), ex.submit(do_mc)
        summ, _, _ = f_rec.result()
        cex = f_mc.result()
    rec = summ["record"]

    # ---- B: every recorded table must be a Report step of UCT.tla
    chunks = split_links(trace, 700, ctx.work, "trace")
    with ThreadPoolExecutor(max_workers=4) as ex:
        results = list(ex.map(lambda ic: validate_chunk(ctx, ic[1], "Trace_UCT_%02d" % ic[0]), enumerate(chunks)))
    rejected = [x for r, _ in results for x in r]
    bad_links = {x["name"] for x in rejected}
    ctx.cov["traces_validated_against_impl"] += rec["links"] - len(bad_links)
    ctx.cov["conformance"].append({"direction": "impl->spec", **rec, "chunks": len(chunks), "rejected_events": rejected[:40], "accepted": not rejected})
    ctx.cov["evaluations"] += rec["tables"]
    lines = [json.loads(l) for l in open(trace)]
    refs = [e for e in lines if e["op"] == "table" and e["ring"] == "Z64" and e["route"] == "pieces" and e["res"] == "ok"]
    tors = [e for e in refs if any(c[3] for c in e["tab"])]
    ctx.cov["distinct_nontrivial"] += len({json.dumps(e["tab"]) for e in tors})
    ctx.cov["links_with_odd_torsion"] = sorted({e["name"] for e in tors if any(t % 2 for c in e["tab"] for t in c[3])})
    ctx.cov["links_with_coprime_torsion_in_one_homological_degree"] = sorted({e["name"] for e in tors if any(
        (t1 % 2 == 0 and t2 % 3 == 0) and c1[0] == c2[0] and c1[1] != c2[1] for c1 in e["tab"] for c2 in e["tab"] for t1 in c1[3] for t2 in c2[3])})
    if rec["panics"]:
        ctx.log("note: %d library calls panicked" % rec["panics"])

    # ---- binding self-test: corrupted recordings must be rejected, each for its own reason
    selftests = []
    good = next((c for c, (r, _) in zip(chunks, results) if not r), None)      # a chunk TLC accepted as recorded
    if good:
        def tab_ok(e, ring, route=None, red=None, ncell=3):
            return e["op"] == "table" and e["res"] == "ok" and e["ring"] == ring and (route is None or e["route"] == route) and (red is None or e["red"] == red) and len(e["tab"]) >= ncell
        def m_f2(e):
            if tab_ok(e, "F2", "total", False):
                e["tab"][1][2] += 1
                return e
        def m_route(e):             # the defect pattern: a torsion summand filed one q-degree off, through the total route
            if tab_ok(e, "Z128", "total") and any(c[3] for c in e["tab"]):
                k = next(i for i, c in enumerate(e["tab"]) if c[3])
                t = e["tab"][k][3].pop()
                e["tab"].append([e["tab"][k][0], e["tab"][k][1] - 2, 0, [t]])
                e["tab"] = [c for c in e["tab"] if c[2] or c[3]]
                return e
        def m_q(e):
            if tab_ok(e, "Q", "pieces"):
                e["tab"] = e["tab"][1:]
                return e
        def m_red(e):
            if tab_ok(e, "F2", "pieces", True):
                for c in e["tab"]:
                    c[1] += 2
                return e
        def m_big(e):
            if tab_ok(e, "ZBig", "pieces") and any(c[3] for c in e["tab"]):
                k = next(i for i, c in enumerate(e["tab"]) if c[3])
                e["tab"][k][3][0] *= 3
                return e
        tests = [("f2_dimension_plus_one", m_f2, "uct"), ("torsion_filed_in_neighbouring_q_degree", m_route, "route"), ("q_cell_dropped", m_q, "rankQ"),
                 ("f2_reduced_shifted", m_red, "f2red"), ("bigint_torsion_order_tripled", m_big, "inttype")]
        for name, f, exp in tests if T else tests[:4]:
            selftests.append(selftest(ctx, good, f, name, exp))
    ctx.cov["binding_selftest"] = selftests

    ctx.cov["rule"] = (
        "MC: (1) MC_UCT - for every bigraded complex of a family of small integer complexes (one general piece 1->2->1 with entries %s, one diagonal piece, two q-degrees; reduced = the complex, "
        "unreduced = its two shifts) the tables over Z, Q, F2, F3 computed from the definition (LinAlg.tla) are accepted by the contract under all 24 keys, and every table with one rank raised, "
        "one torsion summand moved to another q-degree, or emptied is rejected; (2) MC_SplitByDegree - all multisets of <=4 torsion summands with orders in {2,3,4,6,9} over 3 q-degrees: "
        "Normalize yields the invariant-factor chain of the same group, the primary split agrees with the bigraded pieces, and the split by least q-degree (the code's) is refuted by TLC on %s as expected. "
        "B: for %d links (%s; unreduced and reduced) the tables of KhHomologyBigraded::new (total route) and KhComplexBigraded::homology (pieces route) over i64, i128, BigInt, Ratio<i64>, FF2, FF<3> "
        "are validated by Trace_UCT against the reference of the link (i64, pieces); a rejected table is reported and dropped and the rest of the link is still judged. "
        "distinct_nontrivial = distinct reference tables with torsion.") % (
            "-2..3" if T else "-1..2", cex, rec["links"],
            "catalogue knots <=10 and links <=9 crossings, 120 mirrors, 60 eleven-crossing diagrams, T(3,4), T(3,5), T(4,5), small split unions, T(5,6) and T(5,6) + {3_1, 4_1, m5_1, L2a1}" if T
            else "catalogue <=8 crossings, 8 mirrors, T(3,4), T(3,5), T(4,5), small split unions")
    ctx.assumptions += [
        "the relations are evaluated against the i64 table through the bigraded pieces (reported first); if that table itself were wrong, the disagreement would still be reported, but attributed to the other table",
        "torsion is compared up to isomorphism per bidegree (primary decomposition) and up to sign; the order of summands is free",
        "Kh(L;F2) = Khred(L;F2) (x) Kh(unknot;F2) is used for links with any number of components and the base point the library chooses (Shumakovitch)",
        "torsion orders are read through Summand::tors() and must fit an i64; tables list the non-zero groups of h.support()",
        "for the 24..29-crossing inputs (thorough) 15 of the 24 (ring, route, reduced) combinations are recorded"]
    ctx.add_samples([e for e in lines if e["op"] == "table" and e["ring"] == "F3" and any(c[3] for r in refs if r["name"] == e["name"] for c in r["tab"])][:1])
    ctx.add_samples(tors[-1:])


def replay(ctx, path):
    """Re-run a saved witness: recompute the tables of that link with the current library and validate them again."""
    w = json.load(open(path))
    r = w.get("replay", {})
    print(json.dumps({k: w.get(k) for k in ("property", "key", "what", "seed", "tier")}, indent=1))
    name = r.get("name")
    if name:
        ctx.build_harness()
        p = ctx.path("replay_trace.ndjson")
        ctx.yv("c03", "record", "--seed", w.get("seed", 1), "--tier", "thorough", "--only", name, "--out", p, timeout=1500)
        rejected, n = validate_chunk(ctx, p, "replay")
        for x in rejected:
            print("REJECTED", json.dumps(x))
        print("%d events, %d rejected" % (n + len(rejected), len(rejected)))
        hit = [k for k, _ in ctx.known_hits] + [v[0] for v in ctx.violations]
        return 1 if w.get("key") in hit or (rejected and w.get("key") is None) else 0
    print(json.dumps(r)[:4000])
    return 0
