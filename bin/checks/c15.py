"""C15 — Euclidean-domain operations: exact division, gcd, Bezout, units, rounding."""
import json

def run(ctx):
    ctx.tlc_mc("MC_BigNum", "MC_BigNum.cfg", workers=1, coverage=False, timeout=600, cache=True)
    ctx.tlc_mc("MC_Rings", "MC_Rings.cfg", workers=1, coverage=False, timeout=600, cache=True)
    # the contracts accept a reference implementation and pin the answers down on complete small domains
    ctx.tlc_mc("MC_EucOps", "MC_EucOps.cfg", workers=1, coverage=False, timeout=900, cache=True)
    # A: TLC enumerates the complete small operand domains
    cfg = "Gen_EucOps.thorough.cfg" if ctx.thorough else "Gen_EucOps.quick.cfg"
    path, objs = ctx.tlc_gen("Gen_EucOps", cfg, workers=1)
    trace = ctx.path("trace.ndjson")
    summ, _, _ = ctx.yv("c15", "record", "--seed", ctx.seed, "--tier", ctx.tier, "--in", path, "--out", trace, timeout=1800)
    rec = summ["record"]
    # B: every recorded answer validated against the contracts
    r = ctx.tlc_trace("Trace_EucOps", "Trace_EucOps.cfg", trace, timeout=3000)
    ctx.trace_verdict(r, trace, "Euclidean operation")
    ctx.cov["conformance"].append({"direction": "spec->impl inputs + impl->spec validation", **rec, "accepted": r["accepted"],
                                   "enumerated_domains": {o["ring"]: len(o["vals"]) for o in objs}})
    ctx.cov["evaluations"] += rec["events"]
    ctx.cov["distinct_nontrivial"] += rec["operand_pairs"]
    if r["accepted"]:
        ctx.cov["traces_validated_against_impl"] += len(rec["types"])
    ctx.cov["rule"] = ("every ordered pair of the TLC-enumerated domains (Z, Z[i], Z[w], Q, F2..F7, F3[x], F5[x], Q[x]) plus seeded random operands (also over F_1000003 and F_(2^31-1), any i32 as argument of FF::new) "
                       "(machine types up to their width, BigInt to ~10^400/10^700, planted exact quotients and exact half-way cases) through "
                       "div/rem (all operator forms), div_round, gcd (both orders), gcdx, lcm, is_unit/inv, normalizing_unit, normalized on associates; "
                       "distinct_nontrivial = operand pairs")
    ctx.assumptions += ["divisibility d|a is certified by the cofactor a/d computed with the library's own division and re-multiplied by TLC",
                        "an arithmetic-overflow panic inside a machine-integer type (i32/i64/i128 based) is outside the representable envelope and not an event"]
    lines = open(trace).read().splitlines()
    ctx.add_samples([json.loads(l) for l in lines[2000:2002]])

def replay(ctx, path):
    return ctx.replay_trace(path)
