"""C04 — the graded Euler characteristic of Kh is the Jones polynomial (and that polynomial is the Kauffman state sum)."""
import copy, hashlib, json, os
from concurrent.futures import ThreadPoolExecutor
import vlib
from checks.c18 import split_trace, selftest_trace, verdict


def run(ctx):
    T = ctx.thorough
    abs_n = 9 if T else 8
    # ---- MC: Link/Braid definitions the state sum is built on are model-checked by C18; here the polynomial itself:
    #      isotopy invariance on the small family, mirror, products, literature values, polynomial arithmetic
    must = ["Start", "MvWord", "MvMirror", "MvRenumber", "MvReorder", "MvKink", "MvDisjoint", "MvConnSum"]
    ctx.tlc_mc("MC_Jones", "MC_Jones.cfg", workers=6, timeout=1200, must_cover=must)            # histories of <=1 move, with action coverage
    if T:
        ctx.tlc_mc("MC_Jones", "MC_Jones.thorough.cfg", workers=6, timeout=2400, coverage=False)  # histories of <=2 moves

    # ---- A: state-sum polynomials of the small family replayed against jones_polynomial (run with action coverage:
    #      this run is also the vacuity check of the machine's actions)
    path, objs = ctx.tlc_gen("Gen_Jones", "Gen_Jones.thorough.cfg" if T else "Gen_Jones.quick.cfg", workers=6, timeout=2400)
    summ, mism, _ = ctx.yv("c04", "replay", "--in", path, "--out", ctx.path("replay_mismatch.ndjson"))
    rp = summ["replay"]
    ctx.cov["conformance"].append({"direction": "spec->impl", **rp})
    ctx.cov["evaluations"] += rp["cases"]
    ctx.cov["distinct_nontrivial"] += len({json.dumps(o["d"], sort_keys=True) for o in objs})
    ctx.cov["gen_distinct_polynomials"] = len({json.dumps(sorted(o["p"])) for o in objs})
    ctx.add_samples([o for o in objs if len(o["d"]) >= 4][:1])
    for m in mism[:50]:
        c = m["case"]
        ident = json.dumps(c["d"], sort_keys=True)
        ctx.violation("replay:jones:%s" % hashlib.sha1(ident.encode()).hexdigest()[:10],
                      "jones_polynomial of %s: library gives %s, the Kauffman state sum of Jones.tla gives %s" % (ident[:400], json.dumps(m["got"])[:300], json.dumps(sorted(c["p"]))[:300]),
                      {"case": c, "got": m["got"]})
    selftests = []
    if not mism:
        bad = copy.deepcopy(next(o for o in objs if len(o["d"]) >= 3 and len(o["p"]) >= 2))
        bad["p"][0][1] += 1
        p = ctx.path("selftest_gen.ndjson")
        open(p, "w").write(json.dumps(bad) + "\n")
        _, m2, _ = ctx.yv("c04", "replay", "--in", p, "--out", ctx.path("selftest_gen_out.ndjson"))
        if len(m2) != 1:
            raise vlib.ToolError("binding self-test (spec->impl) failed: corrupted expected coefficient not reported")
        selftests.append({"corruption": "one coefficient of a generated expected polynomial +1", "rejected": True})

    # ---- B: recorded polynomials, Khovanov tables and move histories validated by Trace_Jones
    trace = ctx.path("trace.ndjson")
    summ, _, _ = ctx.yv("c04", "record", "--seed", ctx.seed, "--tier", ctx.tier, "--abs-n", abs_n, "--out", trace, timeout=3000)
    rec = summ["record"]
    cfg = "Trace_Jones.thorough.cfg" if T else "Trace_Jones.cfg"
    chunks = split_trace(trace, 900 if T else 400, ctx.work, "trace")
    def one(ic):
        i, (p, n) = ic
        return p, ctx.tlc_trace("Trace_Jones", cfg, p, timeout=2400, tag="Trace_Jones_%02d" % i)
    with ThreadPoolExecutor(max_workers=5) as ex:
        results = list(ex.map(one, enumerate(chunks)))
    ok = True
    for p, r in results:
        if r["invariant"] == "DriverOK":
            raise vlib.ToolError("the driver issued a call outside its documented precondition (event %s of %s); harness bug, not a verdict" % (r["at"], p))
        ok = verdict(ctx, r, p, "Jones / Khovanov history") and ok
    ctx.cov["conformance"].append({"direction": "impl->spec", **rec, "chunks": len(chunks), "accepted": ok})
    ctx.cov["evaluations"] += rec["polynomials"] + rec["kh_tables"]
    if ok:
        ctx.cov["traces_validated_against_impl"] += rec["histories"] - len(chunks)

    first = chunks[0][0]
    def m_kink(e):
        if e["op"] == "jkink" and e["res"] == "ok" and len(e["p"]) >= 2:
            e["p"][0][1] += 1
            return e
    def m_kh(e):
        if e["op"] == "kh" and e["res"] == "ok" and len(e["tab"]) >= 3:
            e["tab"][1][2] += 1
            return e
    def m_mirror(e):
        if e["op"] == "jmirror" and e["res"] == "ok" and any(k != 0 for k, _ in e["p"]) and sorted(e["p"]) != sorted([[-k, c] for k, c in e["p"]]):
            e["p"] = [[-k, c] for k, c in e["p"]]
            return e
    def m_khdeg(e):
        if e["op"] == "kh" and e["res"] == "ok" and len(e["tab"]) >= 3:
            e["tab"][0][1] += 2           # a q-degree shift
            return e
    for name, f in ([("kink_poly", m_kink), ("kh_rank", m_kh), ("mirror_not_inverted", m_mirror)] + ([("kh_qshift", m_khdeg)] if T else [])) if ok else []:
        selftests.append(selftest_trace(ctx, "Trace_Jones", cfg, first, f, name))
    ctx.cov["binding_selftest"] = selftests

    ctx.cov["rule"] = (
        "MC: the state-sum polynomial of Jones.tla is unchanged by every isotopy move of the machine (braid relation, far commutation, R2 pair insertion, "
        "conjugation, stabilisation on every braid word of length <=3 on <=3 strands; four R1 kinks on every edge; renumber; reorder), inverted by mirror, multiplicative "
        "on disjoint unions, satisfies the connected-sum formula, along all histories of <=%d moves up to 5 crossings; literature values of trefoil, figure-8, Hopf, unknot, empty link pinned. "
        "A: the polynomial of every diagram of that family compared with jones_polynomial. "
        "B: for catalogue diagrams and braid closures the recorded polynomial must equal the state sum computed by TLC from the PD code (<=%d crossings: every diagram incl. those after moves), "
        "stay constant along recorded isotopy moves, invert under mirror, multiply under disjoint union, and equal the Euler characteristic of every recorded Khovanov table "
        "(two routes: KhHomologyBigraded::new and KhComplexBigraded::homology, over Z, up to %d crossings). distinct_nontrivial = distinct diagrams of A." % (2 if T else 1, abs_n, rec["max_crossings"]))
    ctx.assumptions += [
        "validity of PD codes as in C18 (every label twice, orientable with under-strands 0->2, genus 0)",
        "diagrams with more than %d crossings are checked through relations only (Euler characteristic = library polynomial, invariance under moves, mirror), not against the state sum" % abs_n,
        "free ranks are read from Summand::rank() of the bigraded homology over i64; torsion is not used by this property",
        "polynomials are projected to (exponent, coefficient) pairs with zero coefficients dropped",
        "isotopy moves are generated by the harness' own diagram / word rewriting; TLC re-derives every moved diagram (kinks) or re-checks the word move and the closure contract (braid moves)"]
    lines = open(trace).read().splitlines()
    ctx.add_samples([json.loads(l) for l in lines if '"op":"kh"' in l][5:6])
    ctx.add_samples([json.loads(l) for l in lines if '"op":"jword"' in l][:1])


def replay(ctx, path):
    w = json.load(open(path))
    r = w.get("replay", {})
    print(json.dumps({k: w.get(k) for k in ("property", "key", "what", "seed", "tier")}, indent=1))
    if "case" in r:
        p = ctx.path("replay_case.ndjson")
        open(p, "w").write(json.dumps(r["case"]) + "\n")
        summ, mism, out = ctx.yv("c04", "replay", "--in", p, "--out", ctx.path("replay_case_out.ndjson"))
        print(out[-3000:])
        return 1 if mism else 0
    if "last_events" in r:
        p = ctx.path("replay_trace.ndjson")
        open(p, "w").write("\n".join(r["last_events"]) + "\n")
        res = ctx.tlc_trace("Trace_Jones", "Trace_Jones.thorough.cfg", p, timeout=1800)
        print("accepted" if res["accepted"] else "REJECTED at %s: %s" % (res["at"], json.dumps(res["event"])[:1500]))
        return 0 if res["accepted"] else 1
    print(json.dumps(r)[:4000])
    return 0
