"""C09 — Smith normal form: D = P A Q, diagonal divisibility chain, true inverses."""
import json

def run(ctx):
    # design: every elementary operation of the SNF machine preserves T = P A Q, P Pi = I, Q Qi = I
    ctx.tlc_mc("MC_SnfSteps", "MC_SnfSteps.thorough.cfg" if ctx.thorough else "MC_SnfSteps.cfg", workers=8, timeout=2400, coverage=False)
    # the result contract pins the diagonal down (gcd-of-minors definition) on all small integer matrices
    ctx.tlc_mc("MC_SNF", "MC_SNF.thorough.cfg" if ctx.thorough else "MC_SNF.cfg", workers=1, coverage=False, timeout=1800, cache=True)
    # A: TLC enumerates every small integer matrix (2x2 entries -3..3, 2x3 / 3x2 entries -1..1; thorough: 2x3 entries -2..2, 3x3 entries -1..1)
    cfgs = ["2x2v3", "2x3v1", "3x2v1"] + (["2x3v2", "3x3v1"] if ctx.thorough else [])
    path = ctx.path("gen_all.ndjson")
    nen = 0
    with open(path, "w") as f:
        for c in cfgs:
            pth, objs = ctx.tlc_gen("Gen_SmallMats", "Gen_SmallMats.%s.cfg" % c, workers=1, out_name="gen_%s.ndjson" % c)
            f.write(open(pth).read()); nen += len(objs)
    trace = ctx.path("trace.ndjson")
    summ, _, _ = ctx.yv("c09", "record", "--seed", ctx.seed, "--tier", ctx.tier, "--in", path, "--out", trace, timeout=3000)
    rec = summ["record"]
    r = ctx.tlc_trace("Trace_SNF", "Trace_SNF.cfg", trace, timeout=3000)
    ctx.trace_verdict(r, trace, "snf call")
    ctx.cov["conformance"].append({"direction": "spec->impl inputs + impl->spec validation", **rec, "accepted": r["accepted"], "tlc_enumerated_matrices": nen})
    ctx.cov["evaluations"] += rec["events"]
    ctx.cov["distinct_nontrivial"] += rec["cases"] - rec["zero_dimensional_cases"]
    if r["accepted"]:
        ctx.cov["traces_validated_against_impl"] += rec["cases"]
    ctx.cov["rule"] = ("per case a matrix (random / zero / U diag V with planted invariant factors incl. coprime pairs, rank deficiency, entries to 10^100 (thorough 10^300) for BigInt, "
                       "Z[i], Z[w]) over 11 rings, snf called with 7 subsets of the transform flags under a 30 s deadline; every returned tuple validated: diagonal, zeros last, normalised, "
                       "divisibility chain, every equation expressible with the returned transforms, unit determinants and rank-by-minors for dims <= 4, gcd-of-minors for small integer matrices, "
                       "same diagonal for every flag subset")
    ctx.assumptions += ["cofactors of the divisibility chain are computed with the library's own division and re-multiplied by TLC",
                        "an arithmetic-overflow panic inside a machine-integer entry type is outside the representable envelope and not an event"]
    lines = open(trace).read().splitlines()
    ctx.add_samples([json.loads(l) for l in lines[1:2]])

def replay(ctx, path):
    return ctx.replay_trace(path)
