"""C17 — bit sequences behave as sequences of at most 64 bits."""
import json

MC_ACTIONS = ["Ok", "Obs", "Rej"]

def run(ctx):
    # MC: the whole machine for MaxLen = 4 (every register state x action x argument)
    gen, dist, acts = ctx.tlc_mc("MC_BitSeq", "MC_BitSeq.cfg", workers=8, coverage=True)
    # A: one implementation test per TLC transition of the boundary family at MaxLen = 64
    cfg = "Gen_BitSeq.thorough.cfg" if ctx.thorough else "Gen_BitSeq.quick.cfg"
    path, objs = ctx.tlc_gen("Gen_BitSeq", cfg, workers=4)
    summ, mism, _ = ctx.yv("c17", "replay", "--in", path, "--out", ctx.path("replay_mismatch.ndjson"))
    n = summ["replay"]["transitions"]
    ctx.cov["conformance"].append({"direction": "spec->impl", "transitions_replayed": n, "mismatches": len(mism)})
    ctx.cov["evaluations"] += n
    ops = sorted({o["ev"]["op"] for o in objs})
    ctx.cov["distinct_nontrivial"] += len({json.dumps(o["ev"], sort_keys=True) + json.dumps(o["pre"]) for o in objs if o["res"] == "ok" and (o["pre"] != o["post"] or o["out"] != "-")})
    ctx.add_samples([o for o in objs if o["ev"]["op"] in ("remove", "new_rev") and len(o["pre"][0]) == 64][:2])
    for m in mism[:50]:
        case = m.get("case", {})
        ev = case.get("ev", {})
        key = "replay:%s:len%d" % (ev.get("op"), len(case.get("pre", [[]])[0]))
        ctx.violation(key, "BitSeq.%s on a %d-bit sequence: implementation gives %s, list-of-booleans model gives res=%s out=%s" % (
            ev.get("op"), len(case.get("pre", [[]])[0]), json.dumps(m.get("got", m.get("why")))[:300], case.get("res"), json.dumps(case.get("out"))[:200]), m)
    # B: random histories recorded from the real type, validated event by event
    trace = ctx.path("trace.ndjson")
    summ, _, _ = ctx.yv("c17", "record", "--seed", ctx.seed, "--tier", ctx.tier, "--out", trace)
    r = ctx.tlc_trace("Trace_BitSeq", "Trace_BitSeq.cfg", trace)
    ctx.trace_verdict(r, trace, "BitSeq history")
    rec = summ["record"]
    ctx.cov["conformance"].append({"direction": "impl->spec", **rec, "accepted": r["accepted"]})
    ctx.cov["evaluations"] += rec["events"]
    ctx.cov["traces_validated_against_impl"] += rec["histories"] - 1 if r["accepted"] else 0
    ctx.cov["rule"] = ("MC: all register states for MaxLen=4 x all actions x all arguments; A: every TLC transition of the boundary family "
                       "(lengths around 0/32/64) replayed on the real BitSeq; B: seeded random histories (lengths biased to 56..64 and 0..3) "
                       "validated by Trace_BitSeq. distinct_nontrivial counts distinct (pre-state, event) pairs of A whose call succeeds and changes a register or returns a value.")
    ctx.cov["ops_covered"] = ops
    ctx.assumptions += ["registers are read back through the public (as_u64, len) pair",
                        "out-of-range index arguments are not issued (the property speaks about exceeding the maximum length only)"]
    with open(trace) as f:
        lines = f.read().splitlines()
    ctx.add_samples([json.loads(l) for l in lines[5:7]])

def replay(ctx, path):
    return ctx.replay_trace(path)
