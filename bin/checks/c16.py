"""C16 — polynomial and linear-combination types form the free algebra / free module they denote."""
import copy, json, os
from concurrent.futures import ThreadPoolExecutor
from . import ext2


ALL_OPS = ["reset", "zero", "one", "const", "var", "term", "from_terms", "copy", "add", "sub", "mul", "neg", "scale", "sum", "product", "pow",
           "negpow", "inv", "map_gens", "filter_gens", "apply", "combine", "eval", "coeff", "is_unit", "look", "lead_for", "mcmp", "mmul", "mdiv",
           "mdivides", "minv", "mtotal", "h_reset", "h_new", "h_add", "h_sub", "h_mul", "h_neg", "h_scale", "h_inv"]
OPS_A = ["add", "sub", "neg", "copy", "sum", "scale", "mul:rhs_one", "mul:rhs_const", "mul:lhs_const", "mul:general", "product", "pow", "const",
         "inv", "is_unit", "eval", "from_terms", "combine", "map_gens", "filter_gens"]


def _fresh_cov():
    return {"states": 0, "transitions": 0, "traces_validated_against_impl": 0, "samples": [], "evaluations": 0,
            "distinct_nontrivial": 0, "rule": "", "mc_runs": [], "conformance": []}


def par(ctx, jobs):
    """Run independent TLC / harness jobs concurrently (the sum of their TLC workers stays <= 6).  Every job gets its own
    coverage accumulator; they are merged here, so no counter is updated from two threads."""
    subs = []
    for _ in jobs:
        s = copy.copy(ctx)
        s.cov = _fresh_cov()
        subs.append(s)
    with ThreadPoolExecutor(max_workers=len(jobs)) as ex:
        futs = [ex.submit(j, s) for j, s in zip(jobs, subs)]
        res = [f.result() for f in futs]          # a ToolError of a job propagates
    for s in subs:
        for k in ("states", "transitions", "traces_validated_against_impl", "evaluations", "distinct_nontrivial"):
            ctx.cov[k] += s.cov[k]
        ctx.cov["mc_runs"] += s.cov["mc_runs"]
        ctx.cov["conformance"] += s.cov["conformance"]
    return res


def _describe(m):
    c = m.get("case", {})
    ev = c.get("ev", {})
    args = {k: v for k, v in ev.items() if k not in ("o", "res", "d", "x", "y")}
    return ("%s %s on a=%s b=%s over %s: implementation shows %s, the polynomial ring gives %s" % (
        m.get("type"), json.dumps(args), json.dumps([t[:2] for t in c.get("pre", [[], []])[0]]), json.dumps([t[:2] for t in c.get("pre", [[], []])[1]]),
        json.dumps(c.get("ring", {}).get("b")), json.dumps(m.get("got", m.get("panic")))[:500], json.dumps(m.get("want"))[:500]))


def run(ctx):
    th = ctx.thorough
    # ---- phase 1: the specification itself (oracle laws, order axioms, the register machine), concurrently
    def mc_machine(c):
        # (-coverage 1 is not usable on this spec: TLC's cost-model pass does not terminate on the recursive ring operators;
        #  that no action is vacuous is established below from the operations TLC itself took in Gen_PolyAlg and those recorded in B)
        return c.tlc_mc("MC_PolyAlg", "MC_PolyAlg.cfg", workers=4, coverage=False, timeout=1500)
    def mc_oracle(c):
        return c.tlc_mc("MC_Polys", "MC_Polys.thorough.cfg" if th else "MC_Polys.cfg", workers=1, coverage=False, timeout=1500)
    def mc_order(c):
        return c.tlc_mc("MC_MonoOrd", "MC_MonoOrd.thorough.cfg" if th else "MC_MonoOrd.cfg", workers=1, coverage=False, timeout=1500)
    par(ctx, [mc_machine, mc_oracle, mc_order])
    if th:
        ctx.tlc_mc("MC_Rings", "MC_Rings.cfg", workers=1, coverage=False, timeout=900, cache=True)

    # ---- phase 2: A (TLC transitions -> implementation) and B (implementation histories -> TLC), concurrently
    nparts = 4 if th else 3
    def dir_a(c):
        path, objs = c.tlc_gen("Gen_PolyAlg", "Gen_PolyAlg.thorough.cfg" if th else "Gen_PolyAlg.quick.cfg", workers=3, timeout=2400)
        summ, mism, _ = c.yv("c16", "replay", "--in", path, timeout=2400)
        # monomial orders and arithmetic: every pair of the small monomial domains on every monomial type
        mpath, mobjs = c.tlc_gen("Gen_MonoOrd", "Gen_MonoOrd.thorough.cfg" if th else "Gen_MonoOrd.quick.cfg", workers=2, timeout=1200)
        msumm, mmism, _ = c.yv("c16", "replay", "--mono", "--in", mpath, timeout=1200)
        return path, objs, summ["replay"], mism, msumm["replay"], mmism
    def dir_b(k):
        def job(c):
            trace = c.path("trace_%d.ndjson" % k)
            summ, _, _ = c.yv("c16", "record", "--seed", c.seed, "--tier", c.tier, "--part", "%d/%d" % (k, nparts), "--out", trace)
            r = c.tlc_trace("Trace_PolyAlg", "Trace_PolyAlg.cfg", trace, timeout=2400, tag="Trace_PolyAlg_%d" % k)
            return trace, summ["record"], r
        return job
    res = par(ctx, [dir_a] + [dir_b(k) for k in range(nparts)])

    path, objs, rp, mism, mrp, mmism = res[0]
    ctx.cov["conformance"].append({"direction": "spec->impl", **rp})
    ctx.cov["conformance"].append({"direction": "spec->impl (monomial orders, products, quotients)", **mrp})
    ctx.cov["evaluations"] += rp["executions"] + mrp["executions"]
    ctx.cov["distinct_nontrivial"] += mrp["monomial_pairs"]
    for m in mmism[:30]:
        ctx.violation("mono:%s:%s" % (m.get("type"), m.get("what")), "%s %s on monomials a=%s b=%s: implementation gives %s, specification %s" % (
            m.get("type"), m.get("what"), json.dumps(m.get("a")), json.dumps((m.get("row") or {})), json.dumps(m.get("got")), json.dumps(m.get("want"))), m)
    nontrivial = [o for o in objs if o["pre"][0] or o["pre"][1]]
    ctx.cov["distinct_nontrivial"] += len(nontrivial)
    ctx.add_samples([o for o in objs if o["ev"]["op"] == "mul" and len(o["pre"][0]) == 2 and len(o["pre"][1]) == 2 and o["ev"]["o"]["nterms"] < 4
                     and o["ring"]["nv"] == 2][:1])
    for m in mism[:60]:
        ev = m.get("case", {}).get("ev", {})
        ctx.violation("replay:%s:%s" % (m.get("type"), ev.get("op")), _describe(m), m)

    tot = {"events": 0, "histories": 0, "panics": 0, "ops_skipped_outside_machine_envelope": 0, "results_equal_to_zero": 0,
           "cancellation_scripts": 0, "max_terms_in_a_register": 0, "max_term_pairs_in_a_product": 0, "types": [],
           "mul_assign_branches": {"rhs_one": 0, "rhs_const": 0, "lhs_const": 0, "general": 0}}
    accepted = True
    sample_lines = []
    for trace, rec, r in res[1:]:
        ok = ctx.trace_verdict(r, trace, "polynomial / Lc history (%s)" % os.path.basename(trace), key_prefix="trace")
        accepted = accepted and ok
        for k in ("events", "histories", "panics", "ops_skipped_outside_machine_envelope", "results_equal_to_zero", "cancellation_scripts"):
            tot[k] += rec[k]
        for k in ("max_terms_in_a_register", "max_term_pairs_in_a_product"):
            tot[k] = max(tot[k], rec[k])
        for k in tot["mul_assign_branches"]:
            tot["mul_assign_branches"][k] += rec["mul_assign_branches"][k]
        tot["types"] += rec["types"]
        if ok:
            ctx.cov["traces_validated_against_impl"] += max(0, rec["histories"] - 1)
        if not sample_lines:
            with open(trace) as f:
                for ln in f:
                    e = json.loads(ln)
                    if e["op"] == "mul" and 2 <= e.get("o", {}).get("nterms", 0) <= 3 and len(ln) < 1400:
                        sample_lines.append(e)
                        break
    # every action of the specification must have been taken: by TLC itself (Gen_PolyAlg: enabled on the exact result) and by the
    # implementation (B).  This replaces TLC's per-action coverage, which is not usable on this spec.
    ops_b = {}
    for trace, rec, r in res[1:]:
        with open(trace) as f:
            for ln in f:
                m = ln.find('"op":"')
                op = ln[m + 6: ln.find('"', m + 6)]
                ops_b[op] = ops_b.get(op, 0) + 1
    ops_a = {}
    for o in objs:
        k = o["ev"]["op"] + (":" + o["ev"]["br"] if "br" in o["ev"] else "")
        ops_a[k] = ops_a.get(k, 0) + 1
    ctx.cov["actions_taken_by_tlc_in_A"] = dict(sorted(ops_a.items()))
    ctx.cov["actions_taken_by_impl_in_B"] = dict(sorted(ops_b.items()))
    missing = [a for a in ALL_OPS if ops_b.get(a, 0) == 0] + [a for a in OPS_A if ops_a.get(a, 0) == 0]
    if missing:
        from vlib import ToolError
        raise ToolError("vacuous run: specification actions never taken: %s" % missing)
    tot["types"] = sorted(set(tot["types"]))
    ctx.cov["conformance"].append({"direction": "impl->spec", **tot, "accepted": accepted})
    ctx.cov["evaluations"] += tot["events"]
    ctx.add_samples(sample_lines)
    # the drivers must have exercised every branch of `*=` and produced cancellations, otherwise the run proves little
    if min(tot["mul_assign_branches"].values()) == 0 or tot["results_equal_to_zero"] == 0:
        from vlib import ToolError
        raise ToolError("C16 driver did not reach every `*=` branch / no cancellation: %s" % json.dumps(tot["mul_assign_branches"]))
    ctx.cov["rule"] = (
        "MC: the PolyAlg register machine explored exhaustively over 5 rings (Z[x,x^-1], F3[x], Z[x,y], sparse Z[x0^+-,x1^+-], Z<gens>) with every action and every "
        "argument of the small domains (values bounded to <= 2-3 terms); the oracle laws (ring axioms, evaluation homomorphism, multiplicative leading term, "
        "linearity of map_gens/filter/apply/combine) over Z, Q, F3, F5, Z[i] in 1-3 variables; the order axioms of lex / graded lex on all monomial triples with "
        "exponents -2..2 in 1, 2, 3 variables.  A: every TLC transition (pair of polynomials of the complete small domain x action) replayed on every implementation "
        "type of the ring (Poly/LPoly/Poly2/LPoly2/Poly3/LPoly3/PolyN/LPolyN, Lc) in every operator form, full observation compared.  B: seeded cancellation-heavy "
        "histories (operands up to dozens of terms) on the type x coefficient-ring grid, each event validated by Trace_PolyAlg.  distinct_nontrivial counts the "
        "distinct (ring, pre-state, event) transitions of A with a non-empty pre-state; evaluations = implementation executions of A + validated events of B.")
    ctx.assumptions += [
        "machine coefficient types (i64, Ratio<i64>, GaussInt<i64>) are driven only inside a conservative envelope in which no intermediate of the operation can overflow; BigInt is unrestricted",
        "eval is exercised where the API admits it (usize exponents over i64 / BigInt); no coefficient type of the crate satisfies the Pow bound needed for Laurent evaluation",
        "monomial division is issued only when the quotient is a monomial of the type; negative powers and inv only where the specification says the element is a unit",
        "multivariate types are driven with variable indices 0..3 (sparse multi-degrees with gaps)",
        "lowest terms / positive denominator of Ratio coefficients is certified per coefficient by a Bezout witness re-multiplied by TLC (canonical scalar form itself is C14)"]
    # extension: yui::Sign and the string helpers polynomial / linear-combination printing goes through
    ext2.fmt_part(ctx)


def replay(ctx, path):
    print(open(path).read()[:6000])
    return 0
