"""C18 — link diagrams: components, signs, resolutions and braid closures are correct."""
import copy, hashlib, json, os
from concurrent.futures import ThreadPoolExecutor
import vlib
from . import ext2


def split_trace(path, max_events, outdir, stem):
    """Split an ndjson trace at `reset` events into chunks of at most ~max_events events."""
    chunks, cur = [], []
    for ln in open(path):
        if ln.startswith('{"d":[],"op":"reset"') and len(cur) >= max_events:
            chunks.append(cur)
            cur = []
        cur.append(ln)
    if cur:
        chunks.append(cur)
    paths = []
    for i, c in enumerate(chunks):
        p = os.path.join(outdir, "%s_%02d.ndjson" % (stem, i))
        open(p, "w").write("".join(c))
        paths.append((p, len(c)))
    return paths


def validate_chunks(ctx, module, cfg, chunks, what, timeout=1500, par=4):
    ok = True
    def one(ic):
        i, (p, n) = ic
        return p, ctx.tlc_trace(module, cfg, p, timeout=timeout, tag="%s_%02d" % (module, i))
    with ThreadPoolExecutor(max_workers=par) as ex:
        results = list(ex.map(one, enumerate(chunks)))
    for p, r in results:
        if r["invariant"] == "DriverOK":
            raise vlib.ToolError("the driver issued a call outside its documented precondition (event %s of %s); this is a harness bug, not a verdict" % (r["at"], p))
        ok = verdict(ctx, r, p, what) and ok
    return ok


def verdict(ctx, r, trace, what):
    """Like Ctx.trace_verdict, but the witness is the whole history (from its `reset`) up to the rejected event."""
    if r["accepted"]:
        ctx.cov["traces_validated_against_impl"] += 1
        return True
    lines = open(trace).read().splitlines()
    at = r["at"] or len(lines)
    start = max([i for i in range(at) if '"op":"reset"' in lines[i][:40]] or [0])
    ev = r["event"] if isinstance(r["event"], dict) else {}
    root = next((json.loads(l) for l in lines[start:at] if '"op":"load"' in l or '"op":"closure"' in l), {})
    ident = json.dumps([root.get("pd"), root.get("word"), ev.get("op")])
    key = "trace:%s:%s" % (ev.get("op") or r["invariant"], hashlib.sha1(ident.encode()).hexdigest()[:10])
    ctx.violation(key, "%s: event %s (%s) of the history starting from %s is not a step of Link.tla/Braid.tla (invariant=%s): %s" % (
        what, at, ev.get("op"), json.dumps({k: root.get(k) for k in ("name", "n", "word", "pd") if k in root})[:300], r["invariant"], json.dumps({k: v for k, v in ev.items() if k != "d"})[:500]),
        {"trace_file": trace, "rejected_at_line": at, "invariant": r["invariant"], "last_events": lines[start:at], "tlc_log": r["log"]})
    return False


def selftest_trace(ctx, module, cfg, trace, mutate, name):
    """Binding self-test: corrupt one recorded field; TLC must reject exactly there."""
    lines = [json.loads(l) for l in open(trace)]
    hit = None
    for i, e in enumerate(lines):
        e2 = mutate(copy.deepcopy(e))
        if e2 is not None:
            hit = (i, e2)
            break
    if hit is None:
        raise vlib.ToolError("binding self-test %s: no event to corrupt" % name)
    i, e2 = hit
    # keep whole histories up to the corrupted event
    p = ctx.path("selftest_%s.ndjson" % name)
    with open(p, "w") as f:
        for e in lines[:i] + [e2] + lines[i + 1:i + 3]:
            f.write(json.dumps(e, separators=(",", ":")) + "\n")
    saved = (ctx.cov["states"], ctx.cov["transitions"])
    r = ctx.tlc_trace(module, cfg, p, timeout=900, tag="selftest_" + name)
    ctx.cov["states"], ctx.cov["transitions"] = saved
    if r["accepted"] or r["at"] != i + 1:
        raise vlib.ToolError("binding self-test %s failed: corrupted event %d was %s" % (name, i + 1, "accepted" if r["accepted"] else "rejected elsewhere (%s)" % r["at"]))
    return {"corruption": name, "event": i + 1, "rejected": True}


def run(ctx):
    T = ctx.thorough
    # ---- MC: the spec itself (small complete family, all move histories, all states)
    ctx.tlc_mc("MC_Link", "MC_Link.cfg", workers=6, timeout=1200,       # <=3 strands, <=3 letters, histories of <=1 move, with action coverage
               must_cover=["Start", "MvMirror", "MvRenumber", "MvReorder", "MvKink", "MvDisjoint", "MvConnSum", "SmResolve", "SmResolveAt", "SmNext"])
    if T:
        ctx.tlc_mc("MC_Link", "MC_Link.words.cfg", workers=6, timeout=1200, coverage=False)      # all words <=4 letters on <=4 strands, all smoothings
        ctx.tlc_mc("MC_Link", "MC_Link.thorough.cfg", workers=6, timeout=2400, coverage=False)   # histories of <=2 moves up to 5 crossings

    # ---- A: TLC-enumerated diagrams / braid words with expected values, replayed on the library
    path, objs = ctx.tlc_gen("Gen_Link", "Gen_Link.thorough.cfg" if T else "Gen_Link.quick.cfg", workers=6, timeout=2400)
    summ, mism, _ = ctx.yv("c18", "replay", "--in", path, "--out", ctx.path("replay_mismatch.ndjson"))
    rp = summ["replay"]
    ctx.cov["conformance"].append({"direction": "spec->impl", **rp})
    ctx.cov["evaluations"] += rp["checks"]
    diag = [o for o in objs if o["kind"] == "diagram"]
    ctx.cov["distinct_nontrivial"] += len({json.dumps(o["d"], sort_keys=True) for o in diag}) + len([o for o in objs if o["kind"] == "braid"])
    ctx.cov["gen_free_component_diagrams"] = len([o for o in diag if len(o["signs"]) > 1])
    ctx.cov["gen_repeated_edge_diagrams"] = len([o for o in diag if any(len(set(c["e"])) < 4 for c in o["d"])])
    ctx.add_samples([{k: o[k] for k in ("kind", "d", "comps", "signs", "writhe", "posneg")} for o in diag if len(o["signs"]) > 1][:1])
    ctx.add_samples([o for o in objs if o["kind"] == "braid" and len(o["word"]) >= 3][:1])
    for m in mism[:50]:
        c = m["case"]
        ident = json.dumps(c.get("d", [c.get("n"), c.get("word")]), sort_keys=True)
        key = "replay:%s:%s" % (m["what"], hashlib.sha1(ident.encode()).hexdigest()[:10])
        ctx.violation(key, "Link %s on %s: library gives %s, the definitions of Link.tla give %s" % (
            m["what"], ident[:300], json.dumps(m["got"])[:300],
            json.dumps({k: c.get(k) for k in ("comps", "signs", "writhe", "posneg", "ncomp", "ncross") if k in c})[:400]),
            {"case": c, "got": m["got"], "what": m["what"]})
    # binding self-test for A: one expected value corrupted must give a mismatch
    # (only meaningful when the uncorrupted cases agree; with mismatches present the verdict is already a violation)
    selftests = []
    if not mism:
        bad = copy.deepcopy(next(o for o in diag if len(o["d"]) >= 3))
        bad["writhe"] += 2
        p = ctx.path("selftest_gen.ndjson")
        open(p, "w").write(json.dumps(bad) + "\n")
        s2, m2, _ = ctx.yv("c18", "replay", "--in", p, "--out", ctx.path("selftest_gen_out.ndjson"))
        if len(m2) != 1 or m2[0]["what"] != "writhe/posneg":
            raise vlib.ToolError("binding self-test (spec->impl) failed: corrupted expected writhe not reported")
        selftests.append({"corruption": "expected writhe +2 in a generated case", "rejected": True})

    # ---- B: recorded histories of the real Link / Braid, validated event by event
    trace = ctx.path("trace.ndjson")
    summ, _, _ = ctx.yv("c18", "record", "--seed", ctx.seed, "--tier", ctx.tier, "--out", trace)
    rec = summ["record"]
    chunks = split_trace(trace, 12000, ctx.work, "trace")
    ok = validate_chunks(ctx, "Trace_Link", "Trace_Link.cfg", chunks, "Link history")
    ctx.cov["conformance"].append({"direction": "impl->spec", **rec, "chunks": len(chunks), "accepted": ok})
    ctx.cov["evaluations"] += rec["events"]
    if ok:
        ctx.cov["traces_validated_against_impl"] += rec["histories"] - len(chunks)
    if rec["panics"]:
        ctx.log("note: %d calls panicked (each is an event TLC has to explain)" % rec["panics"])

    # binding self-test for B (on the first chunk)
    first = chunks[0][0]
    def m_writhe(e):
        if e["op"] == "writhe" and e["res"] == "ok" and len(e["d"]) >= 3:
            e["ans"] += 2
            return e
    def m_sign(e):
        if e["op"] == "signs" and e["res"] == "ok" and len(e["ans"]) >= 3:
            e["ans"][1] *= -1
            return e
    def m_comp(e):
        if e["op"] == "components" and e["res"] == "ok" and len(e["ans"]) >= 2:
            a = e["ans"]
            a[0]["edges"][0], a[1]["edges"][0] = a[1]["edges"][0], a[0]["edges"][0]
            return e
    def m_state(e):
        if e["op"] == "state" and e["res"] == "ok" and len(e["ans"]["comps"]) >= 3:
            c = e["ans"]["comps"]
            c[0]["edges"] += c[1]["edges"]
            del c[1]
            return e
    def m_closure(e):
        if e["op"] == "closure" and e["res"] == "ok" and len(e["word"]) >= 3:
            e["word"][1] *= -1
            return e
    tests = [("writhe", m_writhe), ("sign", m_sign)] + ([("components", m_comp), ("state", m_state)] if T else [])
    if ok:      # corrupting an already rejected trace proves nothing
        for name, f in tests:
            selftests.append(selftest_trace(ctx, "Trace_Link", "Trace_Link.cfg", first, f, name))
        last = chunks[-1][0]
        selftests.append(selftest_trace(ctx, "Trace_Link", "Trace_Link.cfg", last, m_closure, "closure_word"))
    ctx.cov["binding_selftest"] = selftests

    ctx.cov["rule"] = ((
        "MC: every PD code with <=2 crossings (classification theorems), every braid word of length <=%d on <=%d strands without free loop (closure claims, all smoothings), "
        "every history of <=%d moves from the words of length <=3 on <=3 strands and the valid small codes (mirror, renumber, reorder, 4 kinds of R1 kink on every edge, disjoint union, connected sum) up to %d crossings, "
        "every resolution state of every such diagram. A: each generated diagram (with components, admissible sign vectors, writhe, signed numbers, mirror, "
        "ALL states with smoothed data and circles, Seifert smoothings) and each braid word (components, crossings, writhe of the closure) compared with the library. "
        "B: seeded histories on special codes (kinks with repeated edges, label 0, sparse labels), catalogue diagrams (%s) and braid closures on 2..8 strands "
        "(explicit boundary words + random words biased to cancelling pairs, i.e. components that only pass over), every observer after every move, validated by Trace_Link. "
        "distinct_nontrivial = distinct generated diagrams + braid words of A.") % (((4, 4, 2, 5) if T else (3, 3, 1, 4)) + ("all 2214" if T else "a seeded sample",)))
    ctx.assumptions += [
        "a valid PD code is: every label occurs twice, an orientation with every under-strand running 0->2 exists, and the rotation system has genus 0 (a diagram on the sphere); the drivers generate only such codes and TLC re-checks it for every loaded code",
        "crossing signs of a component that never passes under are accepted in either of its two orientations (the contract is existential); writhe and signed crossing numbers do not depend on that choice on the sphere (model-checked)",
        "components / circles are compared as sets of edge sets plus total length and the closed flag; the order of components and of edges inside a path is not constrained",
        "crossing_signs of partially smoothed diagrams is not exercised (the property speaks about PD codes and complete states)",
        "the library object is projected through Link::data() (crossing type names X, Xm, V, H and the four labels)"]
    lines = open(trace).read().splitlines()
    ctx.add_samples([json.loads(l) for l in lines if '"op":"closure"' in l][:1])
    ctx.add_samples([json.loads(l) for l in lines if '"op":"seifert"' in l][3:4])
    # extensions: Path (components, circles) as a state machine
    ext2.path_part(ctx)
    # ... and Tng / TngComp (tangles as glued arcs and circles; the bookkeeping of the tangle complex builder)
    ext2.tng_part(ctx)


def replay(ctx, path):
    """Re-run a saved violation witness."""
    w = json.load(open(path))
    r = w.get("replay", {})
    print(json.dumps({k: w.get(k) for k in ("property", "key", "what", "seed", "tier")}, indent=1))
    if "case" in r:
        p = ctx.path("replay_case.ndjson")
        open(p, "w").write(json.dumps(r["case"]) + "\n")
        summ, mism, out = ctx.yv("c18", "replay", "--in", p, "--out", ctx.path("replay_case_out.ndjson"))
        print(out[-3000:])
        return 1 if mism else 0
    if "last_events" in r:
        p = ctx.path("replay_trace.ndjson")
        ev = r["last_events"]
        # the prefix must start at a history boundary to be meaningful; otherwise show it
        starts = [i for i, l in enumerate(ev) if '"op":"reset"' in l]
        if starts:
            open(p, "w").write("\n".join(ev[starts[-1]:]) + "\n")
            res = ctx.tlc_trace("Trace_Link", "Trace_Link.cfg", p, timeout=900)
            print("accepted" if res["accepted"] else "REJECTED at %s: %s" % (res["at"], json.dumps(res["event"])[:1500]))
            return 0 if res["accepted"] else 1
        print("\n".join(ev)[-4000:])
        return 1
    print(json.dumps(r)[:4000])
    return 0
