"""C02 — Khovanov homology is a link invariant with the expected mirror duality."""
import copy, hashlib, json, os
from concurrent.futures import ThreadPoolExecutor
import vlib
from checks.c18 import split_trace

SPEC_NAME = "Moves.tla / KhTable.tla"


def verdict(ctx, r, trace, what, spec_name=SPEC_NAME):
    """The witness is the whole history (from its `reset`) up to the rejected event; the key identifies root + move."""
    if r["accepted"]:
        ctx.cov["traces_validated_against_impl"] += 1
        return True
    lines = open(trace).read().splitlines()
    at = r["at"] or len(lines)
    start = max([i for i in range(at) if '"op":"reset"' in lines[i][:40]] or [0])
    ev = r["event"] if isinstance(r["event"], dict) else {}
    root = next((json.loads(l) for l in lines[start:at] if '"op":"load"' in l or '"op":"closure"' in l), {})
    hist = [json.loads(l) for l in lines[start:at]]
    moves = [{k: v for k, v in h.items() if k in ("op", "x", "y", "sx", "sy", "over", "kind", "mv", "k", "n", "word", "pi", "f")} for h in hist if h.get("op") not in ("reset", "load", "closure")]
    ident = json.dumps([root.get("pd"), root.get("word"), moves], sort_keys=True)
    key = "trace:%s:%s" % (ev.get("op") or r["invariant"], hashlib.sha1(ident.encode()).hexdigest()[:10])
    small = {k: v for k, v in ev.items() if k not in ("d", "kh", "zs", "dm1", "d0")}
    ctx.violation(key, "%s: event %s (%s) of the history starting from %s with moves %s is not a step of %s (invariant=%s): %s" % (
        what, at, ev.get("op"), json.dumps({k: root.get(k) for k in ("name", "n", "word", "pd") if k in root})[:300],
        json.dumps([m.get("op") for m in moves]), spec_name, r["invariant"], json.dumps(small)[:600]),
        {"trace_file": trace, "rejected_at_line": at, "invariant": r["invariant"], "last_events": lines[start:at], "tlc_log": r["log"]})
    return False


def validate(ctx, module, cfg, trace, stem, what, chunk, par=6, timeout=2400, spec_name=SPEC_NAME):
    chunks = split_trace(trace, chunk, ctx.work, stem)
    def one(ic):
        i, (p, n) = ic
        return p, ctx.tlc_trace(module, cfg, p, timeout=timeout, tag="%s_%s_%02d" % (module, stem, i))
    with ThreadPoolExecutor(max_workers=par) as ex:
        results = list(ex.map(one, enumerate(chunks)))
    ok = True
    for p, r in results:
        if r["invariant"] == "DriverOK":
            raise vlib.ToolError("the driver issued a call outside its documented precondition (event %s of %s); harness bug, not a verdict" % (r["at"], p))
        ok = verdict(ctx, r, p, what, spec_name) and ok
    return ok, chunks


def selftest_trace(ctx, module, cfg, trace, mutate, name):
    """Binding self-test: corrupt one recorded field of one event (keeping its history prefix); TLC must reject exactly there."""
    lines = [json.loads(l) for l in open(trace)]
    hit = None
    for i, e in enumerate(lines):
        e2 = mutate(copy.deepcopy(e))
        if e2 is not None:
            hit = (i, e2)
            break
    if hit is None:
        raise vlib.ToolError("binding self-test %s: no event to corrupt" % name)
    i, e2 = hit
    start = max(j for j in range(i + 1) if lines[j].get("op") == "reset")
    p = ctx.path("selftest_%s.ndjson" % name)
    with open(p, "w") as f:
        for e in lines[start:i] + [e2] + lines[i + 1:i + 2]:
            f.write(json.dumps(e, separators=(",", ":")) + "\n")
    saved = (ctx.cov["states"], ctx.cov["transitions"])
    r = ctx.tlc_trace(module, cfg, p, timeout=900, tag="selftest_" + name)
    ctx.cov["states"], ctx.cov["transitions"] = saved
    want = i - start + 1
    if r["accepted"] or r["at"] != want:
        raise vlib.ToolError("binding self-test %s failed: corrupted event %d was %s" % (name, want, "accepted" if r["accepted"] else "rejected elsewhere (%s)" % r["at"]))
    return {"corruption": name, "event_op": e2.get("op"), "rejected": True}


def first_slot(e, pred):
    for x in e.get("kh", []):
        if pred(x):
            return x
    return None


def run(ctx):
    T = ctx.thorough
    # ---- MC: the relations themselves, on the definition-level tables of a small complete family
    must = ["Start", "MvWord", "MvMirror", "MvReverse", "MvRenumber", "MvReorder", "MvKink", "MvR2"]
    ctx.tlc_mc("MC_KhTable", "MC_KhTable.cfg", workers=6, timeout=1500, must_cover=must)
    if T:
        ctx.tlc_mc("MC_KhTable", "MC_KhTable.thorough.cfg", workers=6, timeout=3000, coverage=False)

    # ---- A: TLC-generated move histories replayed on the library, the resulting trace validated
    gens = [("Gen_KhMoves.thorough.cfg" if T else "Gen_KhMoves.quick.cfg"), ("Gen_KhMoves.deepT.cfg" if T else "Gen_KhMoves.deep.cfg")]
    objs = []
    for cfgname in gens:
        _, o = ctx.tlc_gen("Gen_KhMoves", cfgname, workers=6, timeout=2400)
        objs += o
    gpath = ctx.path("gen_histories.ndjson")
    with open(gpath, "w") as f:
        for o in objs:
            f.write(json.dumps(o, separators=(",", ":")) + "\n")
    atrace = ctx.path("replay_trace.ndjson")
    summ, _, _ = ctx.yv("c02", "replay", "--in", gpath, "--out", atrace, timeout=3000)
    rp = summ["replay"]
    cfg = "Trace_KhTable.cfg"
    okA, chunksA = validate(ctx, "Trace_KhTable", cfg, atrace, "A", "Khovanov tables along a TLC-generated history", 1500 if T else 700)
    ctx.cov["conformance"].append({"direction": "spec->impl (histories generated by TLC, replayed, validated)", **rp, "generated_histories": len(objs), "chunks": len(chunksA), "accepted": okA})
    ctx.cov["evaluations"] += rp["kh_tables"]
    ctx.cov["distinct_nontrivial"] += rp["distinct_diagrams"]
    if okA:
        ctx.cov["traces_validated_against_impl"] += rp["histories"] - len(chunksA)
    ctx.add_samples([o for o in objs if len(o["moves"]) >= 3 and any(m["op"] == "r2" for m in o["moves"])][:1])

    # ---- B: seeded histories on catalogue diagrams / braid closures recorded from the library
    btrace = ctx.path("trace.ndjson")
    summ, _, _ = ctx.yv("c02", "record", "--seed", ctx.seed, "--tier", ctx.tier, "--out", btrace, timeout=6000)
    rec = summ["record"]
    okB, chunksB = validate(ctx, "Trace_KhTable", cfg, btrace, "B", "Khovanov tables along a recorded history", 120 if T else 60)
    ctx.cov["conformance"].append({"direction": "impl->spec", **rec, "chunks": len(chunksB), "accepted": okB})
    ctx.cov["evaluations"] += rec["kh_tables"]
    ctx.cov["distinct_nontrivial"] += rec["distinct_diagrams"]
    if okB:
        ctx.cov["traces_validated_against_impl"] += rec["histories"] - len(chunksB)
    if rec["panics"] or rp["panics"]:
        ctx.log("note: %d calls panicked (each is an event TLC has to explain)" % (rec["panics"] + rp["panics"]))

    # ---- binding self-tests: one recorded field corrupted must be rejected at exactly that event
    def m_rank(e):       # a free rank after an isotopy move
        if e.get("op") in ("kink", "r2", "word", "renumber", "reorder", "reverse") and e["res"] == "ok" and len(e["d"]) >= 5:
            x = first_slot(e, lambda x: x["ring"] == "Z" and x["route"] == 1 and not x["red"] and len(x["tab"]) >= 2)
            if x:
                x["tab"][0][2] += 1
                return e
    def m_qshift(e):     # a q-degree of the reduced F2 table after an isotopy move
        if e.get("op") in ("kink", "r2", "word") and e["res"] == "ok" and len(e["d"]) >= 5:
            x = first_slot(e, lambda x: x["ring"] == "F2" and x["red"] and len(x["tab"]) >= 2)
            if x:
                x["tab"][-1][1] += 2
                return e
    def m_tors(e):       # a torsion coefficient dropped after an isotopy move
        if e.get("op") in ("kink", "r2", "word", "renumber", "reorder", "reverse") and e["res"] == "ok" and len(e["d"]) >= 5:
            x = first_slot(e, lambda x: x["ring"] == "Z" and any(r[3] for r in x["tab"]))
            if x:
                r = next(r for r in x["tab"] if r[3])
                r[3] = r[3][1:]
                return e
    def m_mirror(e):     # mirror: the torsion dualised like the free part ((i,j) -> (-i,-j) instead of (1-i,-j))
        if e.get("op") == "mirror" and e["res"] == "ok":
            x = first_slot(e, lambda x: x["ring"] == "Z" and any(r[3] for r in x["tab"]))
            if x:
                t = next(r for r in x["tab"] if r[3])
                x["tab"] = [r for r in x["tab"] if r is not t or r[2] > 0]
                if t[2] > 0:
                    keep = t[3]; t[3] = []
                else:
                    keep = t[3]
                tgt = [t[0] - 1, t[1]]
                row = next((r for r in x["tab"] if r[:2] == tgt), None)
                if row is None:
                    x["tab"].append([tgt[0], tgt[1], 0, keep])
                else:
                    row[3] = row[3] + keep
                return e
    def m_abs(e):        # the table of a very small root diagram (compared with the definition)
        if e.get("op") in ("load", "closure") and e["res"] == "ok" and 2 <= len(e["d"]) <= 4:
            x = first_slot(e, lambda x: x["ring"] == "Q" and len(x["tab"]) >= 2)
            if x:
                x["tab"][0][0] += 1
                return e
    tests = [("rank_after_move", m_rank), ("qshift_reduced_F2", m_qshift), ("mirror_torsion_not_shifted", m_mirror), ("root_table_vs_definition", m_abs)] + ([("torsion_dropped", m_tors)] if T else [])
    selftests = []
    if okA and okB:
        srcs = [c[0] for c in chunksB] + [c[0] for c in chunksA]
        for name, f in tests:
            done = False
            for src in srcs:
                try:
                    selftests.append(selftest_trace(ctx, "Trace_KhTable", cfg, src, f, name))
                    done = True
                    break
                except vlib.ToolError as ex:
                    if "no event to corrupt" not in str(ex):
                        raise
            if not done:
                raise vlib.ToolError("binding self-test %s: no event to corrupt in any chunk" % name)
    ctx.cov["binding_selftest"] = selftests

    ctx.cov["rule"] = (
        "MC: on every braid word of length <=%d on <=3 strands (+ both trefoils and the figure-eight knot) and every diagram one move away (conjugation, stabilisation +-, sigma sigma^-1 insertion = R2, "
        "braid relation = R3, far commutation; the four R1 kinks on every edge; PD-level R2 for every pair of edges on a common face, over and under; renumbering; reordering; global reversal; mirror), up to 5 crossings, "
        "the DEFINITION-level tables (cube of resolutions + integer Smith form, Z and F2 unreduced, Z reduced for knots) are unchanged by every non-mirror move and dualised by mirror "
        "(free (i,j)->(-i,-j), torsion (i,j)->(1-i,-j)); Euler characteristic = Jones.tla's state sum; literature tables pinned. "
        "A: every TLC history (all one-move histories of the family + a seeded 1/%d thinning of all histories of depth %d) replayed on the library; "
        "B: seeded histories of %d-%d moves on special codes, catalogue diagrams (<=%d crossings) and braid closures; after every step the library's tables "
        "(Z, Q, F2, F3; KhHomologyBigraded::new and KhComplexBigraded::homology; reduced and unreduced for knots) must equal the table the history predicts, "
        "and for diagrams with <=4 crossings the definition's table. distinct_nontrivial = distinct diagrams whose tables were computed.") % (
            (3, 9, 4, 3, 4, 11) if T else (2, 8, 3, 3, 4, 9))
    ctx.assumptions += [
        "validity of PD codes as in C18 (every label twice, orientable with under-strands 0->2, genus 0); every moved diagram is re-derived by TLC from Moves.tla (kinks, R2, reversal, renumbering, reordering) or its word move re-checked together with the closure contract",
        "tables are compared up to isomorphism: free rank per bidegree and the multiset of prime-power orders of the torsion coefficients per bidegree (sign and grouping of coefficients immaterial)",
        "reduced homology only for knots (for links it depends on the marked component)",
        "Reidemeister 3 is exercised through the braid relation, Reidemeister 2 both through sigma sigma^-1 and on the PD code across any face",
        "the tables of diagrams with more than 4 crossings are only related to each other, not recomputed from the definition (that is property C01)",
        "rows are read through Summand::rank() / tors() of the grid returned by the library"]
    lines = open(btrace).read().splitlines()
    smp = [json.loads(l) for l in lines if '"op":"mirror"' in l][:1]
    for s in smp:
        s["kh"] = s["kh"][:2]
    ctx.add_samples(smp)


def replay(ctx, path):
    w = json.load(open(path))
    r = w.get("replay", {})
    print(json.dumps({k: w.get(k) for k in ("property", "key", "what", "seed", "tier")}, indent=1))
    if "last_events" in r:
        p = ctx.path("replay_trace.ndjson")
        open(p, "w").write("\n".join(r["last_events"]) + "\n")
        res = ctx.tlc_trace("Trace_KhTable", "Trace_KhTable.cfg", p, timeout=1800)
        print("accepted" if res["accepted"] else "REJECTED at %s: %s" % (res["at"], json.dumps(res["event"])[:1500]))
        return 0 if res["accepted"] else 1
    print(json.dumps(r)[:4000])
    return 0
