"""C11 — parallel pivot search always returns an acyclic (triangular) pivot set, for every interleaving."""
import json

def run(ctx):
    # every sparsity pattern on 3x3 (thorough: also every candidate subset, and 3x4) x every interleaving of the critical sections
    ctx.tlc_mc("MC_Pivot", "MC_Pivot.quick.cfg", workers=8, timeout=1500, coverage=True)
    if ctx.thorough:
        ctx.tlc_mc("MC_Pivot", "MC_Pivot.cand.cfg", workers=12, timeout=3000)
        ctx.tlc_mc("MC_Pivot", "MC_Pivot.thorough.cfg", workers=12, timeout=6000)
    # extension: the topological sort that orders the returned pivots (every digraph on 3 vertices incl. unknown vertices and loops; random DAGs / cycles)
    ctx.tlc_mc("MC_TopSort", "MC_TopSort.cfg", workers=1, timeout=600)
    tpath, tobjs = ctx.tlc_gen("Gen_TopSort", "Gen_TopSort.cfg", workers=1)
    ttrace = ctx.path("topsort_trace.ndjson")
    tsumm, _, _ = ctx.yv("topsort", "record", "--seed", ctx.seed, "--tier", ctx.tier, "--in", tpath, "--out", ttrace)
    tr = ctx.tlc_trace("Trace_TopSort", "Trace_TopSort.cfg", ttrace, timeout=1800, tag="Trace_TopSort")
    ctx.trace_verdict(tr, ttrace, "top_sort call", key_prefix="topsort")
    ctx.cov["conformance"].append({"direction": "top_sort: spec->impl inputs + impl->spec validation", **tsumm["record"], "accepted": tr["accepted"]})
    ctx.cov["evaluations"] += tsumm["record"]["events"]
    # A: TLC behaviours (simulation on 3x3 patterns, every candidate subset) -> schedules forced on the real worker threads
    nsim = 400 if ctx.thorough else 80
    path, objs = ctx.tlc_gen("Gen_Pivot", "Gen_Pivot.cfg", workers=1, extra=["-simulate", "num=%d" % nsim, "-depth", "80", "-seed", str(ctx.seed)])
    trace = ctx.path("trace.ndjson")
    summ, _, _ = ctx.yv("c11", "record", "--seed", ctx.seed, "--tier", ctx.tier, "--in", path, "--out", trace, timeout=2400)
    rec = summ["record"]
    # B: all recorded critical-section events validated against Pivot.tla
    r = ctx.tlc_trace("Trace_Pivot", "Trace_Pivot.cfg", trace, timeout=3000)
    ctx.trace_verdict(r, trace, "pivot search run")
    ctx.cov["conformance"].append({"direction": "spec->impl schedules (gate hooks) + impl->spec validation", **rec, "accepted": r["accepted"], "tlc_behaviours": len(objs)})
    ctx.cov["evaluations"] += rec["events"]
    ctx.cov["distinct_nontrivial"] += rec["runs"]
    if r["accepted"]:
        ctx.cov["traces_validated_against_impl"] += rec["runs"]
    ctx.cov["rule"] = ("MC: all interleavings of Start/Search/Lock on every 3x3 pattern; A: TLC simulation behaviours on 3x3 patterns with every candidate subset, the pattern embedded so that its rows "
                       "reach the parallel phase and the (row, start|lock) order forced through the gate hooks; B: seeded matrices over Z, Q, F5, Z[H] x {Rows, Cols} x "
                       "{One, AnyUnit, Weight} on pools of 1..16 threads, free-running and under a seeded random gate scheduler that creates stale snapshots; every event "
                       "(started/chosen/nocand/retry/commit/result) must be a step of Pivot.tla and DistinctRows/DistinctCols/CondOK/Acyclic hold after each")
    ctx.assumptions += ["the Started event is logged just after the read lock is released and carries the snapshot length it saw (seen <= Len(piv))",
                        "a timeout of 60 s of one find_pivots call (normal: milliseconds) or a panic is recorded as a result event and rejected",
                        "candidate membership (is_pm_one / is_unit / c_weight) is evaluated by the harness with the library's own predicates"]
    lines = open(trace).read().splitlines()
    ctx.add_samples([json.loads(l) for l in lines[0:6]])

def replay(ctx, path):
    return ctx.replay_trace(path)
