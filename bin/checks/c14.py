"""C14 — scalar types are exact commutative rings with canonical representatives."""
import json

def run(ctx):
    # the oracle itself: bignum arithmetic and the ring library satisfy the ring axioms on small complete domains
    ctx.tlc_mc("MC_BigNum", "MC_BigNum.cfg", workers=1, coverage=False, timeout=600, cache=True)
    ctx.tlc_mc("MC_Rings", "MC_Rings.cfg", workers=1, coverage=False, timeout=600, cache=True)
    # A + exhaustive model of the Scalars machine on the small domains
    path, objs = ctx.tlc_gen("Gen_Scalars", "Gen_Scalars.cfg", workers=4, extra=["-coverage", "1"])
    summ, mism, _ = ctx.yv("c14", "replay", "--in", path)
    rp = summ["replay"]
    ctx.cov["conformance"].append({"direction": "spec->impl", **rp})
    ctx.cov["evaluations"] += rp["executions"]
    ctx.cov["distinct_nontrivial"] += len(objs)
    ctx.add_samples([o for o in objs if o["ring"]["k"] == "Q" and o["op"] == "mul"][100:102])
    for m in mism[:50]:
        c = m["case"]
        ctx.violation("replay:%s:%s" % (m["type"], c["op"]), "%s %s(%s, %s): library gives %s, exact ring gives %s" % (
            m["type"], c["op"], json.dumps(c["a"]), json.dumps(c["b"]), json.dumps(m.get("got", m.get("panic"))), json.dumps(c["v"])), m)
    # B: random histories on every scalar type, validated event by event
    trace = ctx.path("trace.ndjson")
    summ, _, _ = ctx.yv("c14", "record", "--seed", ctx.seed, "--tier", ctx.tier, "--out", trace)
    r = ctx.tlc_trace("Trace_Scalars", "Trace_Scalars.cfg", trace, timeout=3000)
    ctx.trace_verdict(r, trace, "scalar history")
    rec = summ["record"]
    ctx.cov["conformance"].append({"direction": "impl->spec", **rec, "accepted": r["accepted"]})
    ctx.cov["evaluations"] += rec["events"]
    if r["accepted"]:
        ctx.cov["traces_validated_against_impl"] += rec["histories"] - 1
    ctx.cov["rule"] = ("A: every (ring, operand pair, operation) of the complete small domains (Z -6..6, Q |n|<=4 d<=4, F2/F3/F5/F7, Z[i], Z[w] coordinates -2..2) "
                       "with TLC's canonical expected value, run on every implementation type of the ring in all six operator forms; "
                       "B: seeded histories on 18 types (machine ints near their limits inside the representable envelope, BigInt to ~10^300/10^600, FF<p> up to p = 2^30 + 3 and 2^31 - 1 with residues on both sides of 2^30), each result must be exact and canonical.")
    ctx.assumptions += ["machine-integer operations are issued only when the exact result and the cross products of a rational operation are representable",
                        "lowest terms of big rationals is certified by a Bezout witness computed by the harness and re-multiplied by TLC"]
    lines = open(trace).read().splitlines()
    ctx.add_samples([json.loads(l) for l in lines[40:42]])

def replay(ctx, path):
    return ctx.replay_trace(path)
