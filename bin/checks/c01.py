"""C01 — Khovanov homology equals the cube-of-resolutions definition (the definition-level oracle)."""
import copy, hashlib, json, os, threading
from concurrent.futures import ThreadPoolExecutor
import vlib

TLC_BUDGET = 6          # TLC workers running at any time, over all concurrent TLC processes


class Budget:
    """Run jobs concurrently while the sum of their TLC worker counts stays <= TLC_BUDGET."""
    def __init__(self, total):
        self.total, self.used, self.cv = total, 0, threading.Condition()

    def run(self, jobs):
        """jobs: list of (workers, fn). Returns results in order; the first exception is re-raised."""
        out, errs = [None] * len(jobs), []
        def one(i, w, fn):
            with self.cv:
                while self.used + w > self.total:
                    self.cv.wait()
                self.used += w
            try:
                out[i] = fn()
            except Exception as e:       # noqa: collected and re-raised below
                errs.append(e)
            finally:
                with self.cv:
                    self.used -= w
                    self.cv.notify_all()
        with ThreadPoolExecutor(max_workers=len(jobs) or 1) as ex:
            for i, (w, fn) in enumerate(jobs):
                ex.submit(one, i, w, fn)
        if errs:
            raise errs[0]
        return out


def selftest_trace(ctx, bud, module, cfg, trace, mutate, name):
    """Binding self-test: corrupt one recorded field of the first event `mutate` accepts; TLC must reject exactly there.
    (The few states of these runs are taken out of the coverage counters again.)"""
    lines = [json.loads(l) for l in open(trace)]
    hit = None
    for i, e in enumerate(lines):
        e2 = mutate(copy.deepcopy(e))
        if e2 is not None:
            hit = (i, e2)
            break
    if hit is None:
        raise vlib.ToolError("binding self-test %s: no event to corrupt" % name)
    i, e2 = hit
    p = ctx.path("selftest_%s.ndjson" % name)
    with open(p, "w") as f:
        for e in lines[:i] + [e2] + lines[i + 1:i + 3]:
            f.write(json.dumps(e, separators=(",", ":")) + "\n")
    r = bud.run([(1, lambda: ctx.tlc_trace(module, cfg, p, timeout=900, tag="selftest_" + name))])[0]
    ctx.cov["states"] -= r["states"]
    ctx.cov["transitions"] -= r["states"]
    if r["accepted"] or r["at"] != i + 1:
        raise vlib.ToolError("binding self-test %s failed: corrupted event %d was %s" % (name, i + 1, "accepted" if r["accepted"] else "rejected elsewhere (%s)" % r["at"]))
    return {"corruption": name, "event": i + 1, "rejected": True}


def split_histories(path, per_chunk, outdir, stem):
    """Split the builder trace at kb_begin events into chunks of about per_chunk events."""
    chunks, cur = [], []
    for ln in open(path):
        if '"op":"kb_begin"' in ln and len(cur) >= per_chunk:
            chunks.append(cur)
            cur = []
        cur.append(ln)
    if cur:
        chunks.append(cur)
    paths = []
    for i, c in enumerate(chunks):
        p = os.path.join(outdir, "%s_%02d.ndjson" % (stem, i))
        open(p, "w").write("".join(c))
        paths.append((p, len(c)))
    return paths


def case_ident(c):
    return "%s:h%s:t%s:base%s" % (c.get("name"), c.get("h"), c.get("t"), c.get("base"))


def route_class(route):
    r = route.split(" ")[0]
    if r.startswith("manual"):
        return "manual"
    if r.startswith("order"):
        return "order"
    if r.startswith("pool"):
        return "pool"
    if r.startswith("builder"):
        return "builder"
    return "public"


def trace_verdict(ctx, r, trace, what):
    """The witness is the whole history (from its kb_begin) up to the rejected event."""
    if r["accepted"]:
        return True
    lines = open(trace).read().splitlines()
    at = r["at"] or len(lines)
    start = max([i for i in range(min(at, len(lines))) if '"op":"kb_begin"' in lines[i]] or [0])
    ev = r["event"] if isinstance(r["event"], dict) else {}
    root = json.loads(lines[start]) if lines else {}
    ident = json.dumps([root.get("pd"), root.get("h"), root.get("t"), root.get("base"), root.get("style"), root.get("seed"), ev.get("op")])
    key = "trace:%s:%s:%s" % (ev.get("op") or r["invariant"], root.get("name"), hashlib.sha1(ident.encode()).hexdigest()[:10])
    ctx.violation(key, "%s: event %s (%s) of the builder history on %s (h=%s, t=%s, base=%s, style=%s, seed=%s) is not a step of KhBuilder.tla (invariant=%s): %s" % (
        what, at, ev.get("op"), json.dumps(root.get("pd")), root.get("h"), root.get("t"), root.get("base"), root.get("style"), root.get("seed"), r["invariant"],
        json.dumps({k: v for k, v in ev.items() if k not in ("keys", "mats", "gens")})[:400]),
        {"trace_file": trace, "rejected_at_line": at, "invariant": r["invariant"], "last_events": lines[start:at], "tlc_log": r["log"]})
    return False


def run(ctx):
    T = ctx.thorough
    bud = Budget(TLC_BUDGET)
    sfx = "thorough" if T else "quick"

    # ---------------------------------------------------------------- MC (the specification itself) and the generators, concurrently
    gens = {}
    ready = {"kh": threading.Event(), "cob": threading.Event()}
    def mc(module, cfg, w, timeout=2400):
        return (w, lambda: ctx.tlc_mc(module, cfg, workers=w, timeout=timeout, coverage=False))
    def gen(module, cfg, w, name, timeout=2400):
        def f():
            try:
                gens[name] = ctx.tlc_gen(module, cfg, workers=w, timeout=timeout, out_name="gen_%s.ndjson" % name)
            finally:
                ready[name].set()
        return (w, f)
    conf_a_result = {}
    selftests_a, selftests_b = [], []
    def conf_a():
        """direction A; starts as soon as both generators have finished (it uses no TLC worker)"""
        ready["kh"].wait(); ready["cob"].wait()
        if "kh" not in gens or "cob" not in gens:
            return          # a generator failed: its ToolError is raised by the scheduler
        # ---------------------------------------------------------------- A: TLC's tables replayed on the library
        kh_path, kh_objs = gens["kh"]
        cob_path, cob_objs = gens["cob"]
        allp = ctx.path("gen_all.ndjson")
        with open(allp, "w") as f:
            f.write(open(kh_path).read())
            f.write(open(cob_path).read())
        nperm, nsched = (24, 15) if T else (12, 10)
        summ, mism, _ = ctx.yv("c01", "replay", "--in", allp, "--out", ctx.path("replay_mismatch.ndjson"), "--seed", ctx.seed,
                               "--perms", nperm, "--sched", nsched, "--par", 6, timeout=3000)
        rp = summ["replay"]
        ctx.cov["conformance"].append({"direction": "spec->impl", **rp, "crossing_orders_per_case": "all n! for n<=4, %d random otherwise (Z); 6 for Q, F2, F3" % nperm,
                                       "manual_schedules_per_case": "%d over Z, 3 over Q, F2, F3" % nsched, "thread_pools": [1, 2, 16]})
        ctx.cov["evaluations"] += rp["evaluations"]
        nontriv = {case_ident(o) for o in kh_objs if o["n"] >= 2}
        ctx.cov["distinct_nontrivial"] += len(nontriv) + len([o for o in cob_objs if o["g"] + o["x"] + o["y"] >= 2])
        ctx.cov["gen_diagrams"] = len({o["name"] for o in kh_objs})
        ctx.cov["gen_max_crossings"] = max([o["n"] for o in kh_objs] or [0])
        ctx.cov["gen_cases_with_torsion"] = len([o for o in kh_objs if any(r["tors"] for r in o["tab"])])
        ctx.cov["gen_reduced_cases"] = len([o for o in kh_objs if o["base"] >= 0])
        ctx.add_samples([{k: o[k] for k in ("name", "d", "h", "t", "base", "tab")} for o in kh_objs if o["n"] == 3 and o["h"] == 2 and o["t"] == 3][:1])
        ctx.add_samples([o for o in cob_objs if o["g"] == 1 and o["x"] == 2 and o["y"] == 1][:1])
        seen = set()
        for m in mism:
            c = m["case"]
            if c.get("kind") == "cob":
                key = "replay:cob:%s:g%d:x%d:y%d" % (m["what"], c["g"], c["x"], c["y"])
                what = "cobordism component genus=%d X-dots=%d Y-dots=%d: %s gives %s, CobEval.tla / Frobenius.tla give %s" % (
                    c["g"], c["x"], c["y"], m["what"], json.dumps(m["got"])[:300], json.dumps(m["expected"])[:300])
            else:
                key = "replay:kh:%s:%s:%s" % (case_ident(c), m.get("ring"), route_class(m.get("route", "")))
                what = "Kh of %s (PD %s) with (h,t)=(%s,%s), %s over %s by route %s: library gives %s, the cube of resolutions gives %s (%d routes disagree)" % (
                    c["name"], json.dumps([x["e"] for x in c["d"]]), c["h"], c["t"], "unreduced" if c["base"] < 0 else "reduced at edge %d" % c["base"], m.get("ring"), m.get("route"),
                    json.dumps(m["got"])[:300], json.dumps(m["expected"])[:300], m.get("routes_failed", 1))
            if key in seen:
                continue
            seen.add(key)
            ctx.violation(key, what, {"case": c, "route": m.get("route"), "ring": m.get("ring"), "got": m["got"], "expected": m["expected"], "what": m["what"]})

        # binding self-test for A: corrupted expected values must be reported
        selftests = selftests_a
        if not mism:
            base_case = next(o for o in kh_objs if o["n"] >= 3 and o["h"] == 0 and o["t"] == 0 and o["base"] < 0 and any(r["tors"] for r in o["tab"]))
            def corrupt(f, name, expect_what):
                bad = copy.deepcopy(base_case)
                f(bad)
                p = ctx.path("selftest_gen_%s.ndjson" % name)
                open(p, "w").write(json.dumps(bad) + "\n")
                _, m2, _ = ctx.yv("c01", "replay", "--in", p, "--out", ctx.path("selftest_gen_%s_out.ndjson" % name), "--perms", 2, "--sched", 1, "--par", 1)
                if not m2 or not any(x["what"] == expect_what for x in m2):
                    raise vlib.ToolError("binding self-test (spec->impl) failed: corruption '%s' not reported" % name)
                selftests.append({"corruption": name, "rejected": True})
            def c_rank(o):
                next(r for r in o["tab"] if r["rank"] > 0)["rank"] += 1
            def c_tors(o):
                r = next(r for r in o["tab"] if r["tors"]); r["tors"][0] *= 2
            def c_f2(o):
                next(r for r in o["tab"] if r["f2"] > 0)["f2"] += 1
            def c_bideg(o):
                next(r for r in o["bi"] if r["rank"] > 0)["j"] += 2
            corrupt(c_rank, "expected rank +1 in one degree", "kh")
            corrupt(c_tors, "expected torsion order doubled", "kh")
            corrupt(c_f2, "expected F2 dimension +1", "kh")
            corrupt(c_bideg, "q-degree of one expected bigraded group shifted by 2", "kh_bigraded")
            badc = copy.deepcopy(next(o for o in cob_objs if o["g"] == 1 and o["closed"]))
            badc["closed"][0][2] += 1
            p = ctx.path("selftest_gen_cob.ndjson")
            open(p, "w").write(json.dumps(badc) + "\n")
            _, m2, _ = ctx.yv("c01", "replay", "--in", p, "--out", ctx.path("selftest_gen_cob_out.ndjson"), "--par", 1)
            if not m2:
                raise vlib.ToolError("binding self-test (spec->impl) failed: corrupted cobordism value not reported")
            selftests.append({"corruption": "one coefficient of an expected closed-cobordism value +1", "rejected": True})

        conf_a_result["kh_objs"] = kh_objs
    conf_b_result = {}
    def conf_b():
        """direction B; recording needs no TLC worker, the trace validations take theirs from the common budget"""
        # ---------------------------------------------------------------- B: manual builder histories validated step by step
        trace = ctx.path("trace.ndjson")
        summ, _, _ = ctx.yv("c01", "record", "--seed", ctx.seed, "--tier", ctx.tier, "--out", trace, timeout=3000)
        rec = summ["record"]
        chunks = split_histories(trace, 2500 if T else 700, ctx.work, "trace")
        results = bud.run([(1, (lambda p=p, i=i: (p, ctx.tlc_trace("Trace_KhBuilder", "Trace_KhBuilder.cfg", p, timeout=2400, tag="Trace_KhBuilder_%02d" % i))))
                           for i, (p, n) in enumerate(chunks)])
        ok = True
        for p, r in results:
            if r["invariant"] == "DriverOK":
                raise vlib.ToolError("the driver issued a call outside its documented precondition (event %s of %s); harness bug, not a verdict" % (r["at"], p))
            ok = trace_verdict(ctx, r, p, "builder history") and ok
        ctx.cov["conformance"].append({"direction": "impl->spec", **rec, "chunks": len(chunks), "accepted": ok})
        ctx.cov["evaluations"] += rec["events"]
        if ok:
            ctx.cov["traces_validated_against_impl"] += rec["histories"]
        if rec["panics"]:
            ctx.log("note: %d builder histories ended in a panic (each is an event TLC has to explain)" % rec["panics"])

        if ok:
            # corrupt one recorded field; TLC must reject exactly there
            big = max(chunks, key=lambda c: c[1])[0]
            def m_mat(e):
                if e["op"] == "kb_final" and e["res"] == "ok":
                    for w, m in enumerate(e["mats"]):
                        for r in m:
                            for j, x in enumerate(r):
                                if x in (1, -1) and len(e["gens"]) >= 3:
                                    r[j] = x + 4
                                    return e
            def m_q(e):
                if e["op"] == "kb_final" and e["res"] == "ok" and len(e["gens"]) >= 2 and e["gens"][1]:
                    e["gens"][1][0]["q"] += 2
                    return e
            def m_keys(e):
                if e["op"] == "kb_deloop" and len(e["keys"]) >= 3:
                    del e["keys"][1]
                    return e
            def m_elim(e):
                if e["op"] == "kb_elim" and len(e["l"]["st"]) >= 2:
                    e["l"] = copy.deepcopy(e["k"])          # not one step higher
                    return e
            def m_circ(e):
                if e["op"] == "kb_deloop" and len(e["circ"]) >= 1 and len(e["k"]["st"]) >= 2:
                    e["circ"] = e["circ"] + [999]
                    return e
            tests = [("matrix_entry_changed", m_mat), ("generator_q_degree", m_q), ("vertex_missing_after_deloop", m_keys)] + ([("elimination_same_level", m_elim), ("delooped_circle_not_in_tangle", m_circ)] if T else [])
            for name, f in tests:
                selftests_b.append(selftest_trace(ctx, bud, "Trace_KhBuilder", "Trace_KhBuilder.cfg", big, f, name))
        conf_b_result["trace"] = trace
    conf_jobs = [
        (0, conf_a),
        (0, conf_b),
        gen("Gen_KhCube", "Gen_KhCube.%s.cfg" % sfx, 4 if T else 2, "kh"),                   # the expected tables (direction A)
        gen("Gen_CobEval", "Gen_CobEval.%s.cfg" % sfx, 1, "cob"),
    ]
    mc_jobs = [
        mc("MC_KhCube", "MC_KhCube.thorough.cfg" if T else "MC_KhCube.cfg", 2 if T else 4),   # d.d = 0, bidegree, Euler = Jones, Lee, isotopy invariance of the oracle
        mc("MC_SmithFast", "MC_SmithFast.cfg", 1),                                           # the fast Smith / rank operators against LinAlg
        mc("MC_KhBuilder", "MC_KhBuilder.thorough.cfg" if T else "MC_KhBuilder.cfg", 4 if T else 2),   # every schedule of the abstract builder
        mc("MC_CobEval", "MC_CobEval.thorough.cfg" if T else "MC_CobEval.cfg", 2),           # Frobenius laws, every rewriting order
    ]
    if os.environ.get("VERIF_C01_CONF_ONLY"):        # used when trying seeded library changes: the model checks do not depend on the library
        mc_jobs = []
        ctx.assumptions.append("VERIF_C01_CONF_ONLY set: the TLC model checks of the specification were skipped in this run")
    jobs = [mc_jobs[0]] + conf_jobs + mc_jobs[1:] if mc_jobs else conf_jobs
    bud.run(jobs)
    ctx.cov["exhaustive"] = True

    ctx.cov["binding_selftest"] = selftests_a + selftests_b
    kh_objs, trace = conf_a_result["kh_objs"], conf_b_result["trace"]

    ctx.cov["rule"] = (
        "MC (exhaustive, TLC): MC_KhCube - on every diagram of the family of MC_Jones (closures of all braid words of length <=%d on <=3 strands and all their images under one move: braid relation, "
        "commutation, R2 pair, conjugation, stabilisation, four R1 kinks on every edge, renumber, reorder, mirror, disjoint union, connected sum; <=4 crossings): d.d = 0 for (h,t) in {(0,0)} + HT unreduced and "
        "reduced (t = 0) at every component, bidegree (1,0) / filtration, reduced subcomplex closed, bigraded = total, universal coefficients, graded Euler characteristic = Jones polynomial of Jones.tla "
        "(reduced: times q + 1/q), Lee / Bar-Natan rank 2^components, and isotopy invariance / mirror duality of the tables themselves; Bar-Natan's tables of trefoil, figure-8, Hopf pinned. "
        "MC_KhBuilder - every order of absorbing crossings, delooping and eliminating (<=1 elimination) on the small roots keeps the Euler characteristic of the cube. MC_CobEval - Frobenius laws over "
        "h,t in -2..3 and symbolic, every rule sound for genus <=%d and <=%d dots, every rewriting order on the small components. MC_SmithFast - fast Smith / rank operators = LinAlg on complete small domains. "
        "A: Gen_KhCube prints the table (rank, torsion, F2, F3 per degree; per bidegree when h=t=0) of every (diagram <=%d crossings of the named family%s, (h,t) of the grid, unreduced / reduced at each component); the library "
        "computes it over i64, Ratio<i64>, FF2, FF<3> through the public constructors, TngComplexBuilder under every crossing order (n<=4) / random orders, seeded manual deloop / eliminate schedules with the automatic "
        "simplification off, and rayon pools of 1, 2, 16 threads; every answer must be isomorphic to the table. Gen_CobEval: values of closed / bounded cobordism components of genus <=%d with <=%d dots of each kind vs "
        "CobComp::eval / part_eval over Poly2<H,T,i64>. B: seeded manual builder histories over Z (h,t from the grid, every third reduced at a random edge) logged call by call and validated by Trace_KhBuilder "
        "(keys and derived tangles after every call, admissibility of every deloop / eliminate, final generators, d.d = 0 and homology of the returned complex = homology of the cube). "
        "distinct_nontrivial = distinct (diagram, h, t, base) cases of A with >= 2 crossings + cobordism components with genus + dots >= 2." % (
            (3 if T else 2), (4 if T else 3), (6 if T else 4), (6 if T else 5), ("" if T else " plus the 6-crossing probes L6n1 and square knot on a small grid"), (5 if T else 3), (5 if T else 3)))
    ctx.assumptions += [
        "a valid PD code as in C18 (every label twice, orientable with under-strands 0->2, genus 0); crossingless diagrams are given as smoothing entries",
        "isomorphism of homology = equal rank and equal multiset of prime-power torsion orders in every (bi)degree; signs and the order of the torsion list are not constrained",
        "over Q, F2, F3 the expected dimensions are the rank of the integral cube complex and n - rank_p d_in - rank_p d_out with (h,t) reduced mod p; the reduced variant is generated only for integer t = 0",
        "reduced: the public constructors use the least label of the first crossing as base edge (modelled as DefaultBase); other base edges are exercised through TngComplexBuilder::new(.., Some(edge))",
        "manual schedules deloop the circle through the base point only when every crossing is absorbed and no free circle is left in any vertex (the library's finalize does the same; arcs and free circles do not "
        "remember the base point and CobComp::is_invertible would take a cylinder from a based to a free circle for an isomorphism) - see notes/C01.md",
        "an i64 computation that panics with an arithmetic overflow (harness built with overflow checks) is repeated over BigInt and that answer is judged (count: i64_overflows_redone_over_bigint)",
        "TLC integers are 32-bit: an overflow inside the oracle is a TLC error (exit 2), never a verdict",
        "action coverage of MC_KhCube is not collected (TLC's -coverage hangs on recursion-heavy evaluation); its machine is MC_Jones', whose actions are covered in C04"]
    lines = open(trace).read().splitlines()
    ctx.add_samples([json.loads(l) for l in lines if '"op":"kb_elim"' in l][:1])
    ctx.add_samples([{k: v for k, v in json.loads(l).items() if k != "keys"} for l in lines if '"op":"kb_begin"' in l and '"name":"4_1"' in l][:1])


def replay(ctx, path):
    """Re-run a saved violation witness."""
    w = json.load(open(path))
    r = w.get("replay", {})
    print(json.dumps({k: w.get(k) for k in ("property", "key", "what", "seed", "tier")}, indent=1))
    if "case" in r:
        p = ctx.path("replay_case.ndjson")
        open(p, "w").write(json.dumps(r["case"]) + "\n")
        if r["case"].get("kind") == "kh" and r.get("route"):
            rc, out = vlib.sh([vlib.YV, "c01", "route", "--in", p, "--route", r["route"]], timeout=600)
            print(out[-3000:])
        summ, mism, out = ctx.yv("c01", "replay", "--in", p, "--out", ctx.path("replay_case_out.ndjson"))
        print(out[-3000:])
        return 1 if mism else 0
    if "last_events" in r:
        p = ctx.path("replay_trace.ndjson")
        open(p, "w").write("\n".join(r["last_events"]) + "\n")
        res = ctx.tlc_trace("Trace_KhBuilder", "Trace_KhBuilder.cfg", p, timeout=1800)
        print("accepted" if res["accepted"] else "REJECTED at %s: %s" % (res["at"], json.dumps(res["event"])[:1500]))
        return 0 if res["accepted"] else 1
    print(json.dumps(r)[:4000])
    return 0
