"""C07 — homology of any chain complex over a Euclidean domain is computed correctly."""
import json
from . import ext2

def run(ctx):
    # the oracle: elimination-based invariant factors / modular ranks agree with gcds of minors; universal coefficients on small pairs
    ctx.tlc_mc("MC_LinAlg", "MC_LinAlg.cfg", workers=1, coverage=False, timeout=900, cache=True)
    # A: TLC enumerates every pair (d1 2x2, d2 1x2) with entries -2..2 (thorough -3..3) and d2 d1 = 0
    path, objs = ctx.tlc_gen("Gen_HomPairs", "Gen_HomPairs.thorough.cfg" if ctx.thorough else "Gen_HomPairs.quick.cfg", workers=1)
    trace = ctx.path("trace.ndjson")
    summ, _, _ = ctx.yv("c07", "record", "--seed", ctx.seed, "--tier", ctx.tier, "--in", path, "--out", trace, timeout=3000)
    rec = summ["record"]
    r = ctx.tlc_trace("Trace_HomCalc", "Trace_HomCalc.cfg", trace, timeout=3000)
    ctx.trace_verdict(r, trace, "homology computation")
    ctx.cov["conformance"].append({"direction": "spec->impl inputs + impl->spec validation", **rec, "accepted": r["accepted"], "tlc_enumerated_pairs": len(objs)})
    ctx.cov["evaluations"] += rec["events"]
    ctx.cov["distinct_nontrivial"] += rec["cases"] - rec["zero_dimensional_cases"]
    if r["accepted"]:
        ctx.cov["traces_validated_against_impl"] += rec["cases"]
    ctx.cov["rule"] = ("per case a pair (d1, d2) with d2 d1 = 0 built as U S1 V, W S2 U^-1 with planted ranks and planted torsion (2,3,4,6,9,5,12, coprime pairs, repeated), "
                       "shapes incl. zero dimensions, over i64, BigInt, Q, F3, F5, Z[i], Z[w], F3[x], Q[x]; HomologyCalc::calculate with and without coordinate maps and "
                       "GenericChainComplex::generate(..).homology(); validated: rank = n - rk d1 - rk d2 by the spec's own elimination, torsion = non-unit invariant factors "
                       "(multiset, integers), cycles, boundaries vanish modulo the matching torsion order, P Q = I")
    ctx.assumptions += ["ranks over Z[i], Z[w], F3[x], Q[x] are computed by minors (dims <= 4 there)",
                        "divisibility of a boundary coordinate by its torsion order is certified by a cofactor computed with the library's division and re-multiplied by TLC"]
    lines = open(trace).read().splitlines()
    ctx.add_samples([json.loads(l) for l in lines[3:4]])
    # extensions: the containers homology summands and graded complexes are built on (IndexList, Grid / GridDeg) as state machines
    ext2.indexlist_part(ctx)
    ext2.grid_part(ctx)

def replay(ctx, path):
    return ctx.replay_trace(path)
