"""Extension machines (second batch) run as additional parts of existing checks:
   IndexList, Grid  -> C07     Path, Tng -> C18     Sign / format helpers -> C16
Each part = exhaustive TLC model of the machine (with action census) + A (TLC-generated behaviours replayed on the real type)
+ B (seeded histories of the real type validated by the trace spec) + a binding self-test of both directions.
Results go to ctx.cov["extensions"][<name>]; disagreements are reported through ctx.violation with the prefixes
"indexlist:", "grid:", "path:", "fmt:", "tng:"."""
import copy, hashlib, json, os, re
import vlib


def _h(o):
    return hashlib.sha1(json.dumps(o, sort_keys=True).encode()).hexdigest()[:10]


def _ext(ctx, name):
    return ctx.cov.setdefault("extensions", {}).setdefault(name, {})


def _mc(ctx, ext, module, cfg, workers=4, coverage=True, timeout=900):
    gen, dist, acts = ctx.tlc_mc(module, cfg, workers=workers, timeout=timeout, coverage=coverage)
    ext.setdefault("model_checks", []).append({"module": module, "cfg": cfg, "distinct_states": dist, "transitions": gen,
                                               "actions_taken": {k: v[1] for k, v in sorted(acts.items())} if coverage else "census off (same actions as the first configuration)"})


def _selftest_replay(ctx, comp, objs, pick, corrupt, name, extra_args=()):
    """Binding self-test for A: one expected value corrupted must give exactly one mismatching case."""
    src = next((o for o in objs if pick(o)), None)
    if src is None:
        raise vlib.ToolError("binding self-test %s: no generated case to corrupt" % name)
    bad = corrupt(copy.deepcopy(src))
    p = ctx.path("selftest_%s_%s.ndjson" % (comp, re.sub(r"\W+", "_", name)))
    open(p, "w").write(json.dumps(bad) + "\n")
    _, mism, _ = ctx.yv(comp, "replay", "--in", p, *extra_args)
    if len(mism) < 1:
        raise vlib.ToolError("binding self-test (spec->impl, %s/%s) failed: the corrupted expectation was not reported" % (comp, name))
    return {"direction": "spec->impl", "corruption": name, "rejected": True}


def _selftest_trace(ctx, module, cfg, trace, mutate, name):
    """Binding self-test for B: one recorded field corrupted; TLC must reject exactly that event."""
    lines = [json.loads(l) for l in open(trace)]
    hit = None
    for i, e in enumerate(lines):
        e2 = mutate(copy.deepcopy(e))
        if e2 is not None:
            hit = (i, e2)
            break
    if hit is None:
        raise vlib.ToolError("binding self-test %s: no event to corrupt" % name)
    i, e2 = hit
    p = ctx.path("selftest_%s_%s.ndjson" % (module, re.sub(r"\W+", "_", name)))
    with open(p, "w") as f:
        for e in lines[:i] + [e2]:
            f.write(json.dumps(e, separators=(",", ":")) + "\n")
    saved = (ctx.cov["states"], ctx.cov["transitions"])
    r = ctx.tlc_trace(module, cfg, p, timeout=600, tag="selftest_%s_%s" % (module, re.sub(r"\W+", "_", name)))
    ctx.cov["states"], ctx.cov["transitions"] = saved
    if r["accepted"] or r["at"] != i + 1:
        raise vlib.ToolError("binding self-test %s/%s failed: corrupted event %d was %s" % (module, name, i + 1, "accepted" if r["accepted"] else "rejected elsewhere (%s)" % r["at"]))
    return {"direction": "impl->spec", "corruption": name, "event": i + 1, "rejected": True}


def _ab(ctx, ext, comp, prefix, gens, trace_module, describe, selftests_a, selftests_b, record_timeout=600):
    """gens: list of (module, cfg, workers).  Returns (objs, replay summary, record summary, accepted)."""
    objs, path = [], ctx.path("gen_%s.ndjson" % comp)
    with open(path, "w") as out:
        for k, (module, cfg, workers) in enumerate(gens):
            p, o = ctx.tlc_gen(module, cfg, workers=workers, timeout=1500, out_name="gen_%s_%d.ndjson" % (comp, k))
            out.write(open(p).read())
            objs += o
    summ, mism, _ = ctx.yv(comp, "replay", "--in", path, timeout=1500)
    rp = summ["replay"]
    # at most 4 witnesses per kind of disagreement, so that one frequent kind does not hide the others
    seen, chosen = {}, []
    for m in mism:
        kind = json.dumps(sorted({d.get("what", "").split("(")[0] for d in m.get("diff", [])}))
        seen[kind] = seen.get(kind, 0) + 1
        if seen[kind] <= 4 and len(chosen) < 40:
            chosen.append(m)
    for m in chosen:
        key, what = describe(m)
        ctx.violation("%s:replay:%s" % (prefix, key), what, m)
    trace = ctx.path("%s_trace.ndjson" % comp)
    summ2, _, _ = ctx.yv(comp, "record", "--seed", ctx.seed, "--tier", ctx.tier, "--out", trace, timeout=record_timeout)
    rec = summ2["record"]
    r = ctx.tlc_trace(trace_module, trace_module + ".cfg", trace, timeout=1800, tag=trace_module)
    if r["invariant"] == "DriverOK":
        raise vlib.ToolError("the %s driver issued a call outside the documented precondition (event %s of %s): harness bug, not a verdict" % (comp, r["at"], trace))
    ok = ctx.trace_verdict(r, trace, "%s history" % comp, key_prefix=prefix)
    tests = []
    if not mism:
        for name, pick, corrupt in selftests_a:
            tests.append(_selftest_replay(ctx, comp, objs, pick, corrupt, name))
    if ok:
        for name, mutate in selftests_b:
            tests.append(_selftest_trace(ctx, trace_module, trace_module + ".cfg", trace, mutate, name))
    ext["spec_to_impl"] = {"generated_cases": len(objs), **rp}
    ext["impl_to_spec"] = {**rec, "accepted": ok}
    ext["binding_selftest"] = tests
    ctx.cov["conformance"].append({"direction": "%s (extension): spec->impl replay + impl->spec histories" % comp,
                                   "generated_cases": len(objs), "replay_checks": rp.get("checks"), "mismatches": rp.get("mismatches"),
                                   "recorded_events": rec.get("events"), "accepted": ok})
    ctx.cov["evaluations"] += (rp.get("checks") or 0) + (rec.get("events") or 0)
    return objs, rp, rec, ok


# ------------------------------------------------------------------------------------------------ IndexList (C07)
def indexlist_part(ctx):
    ext = _ext(ctx, "IndexList")
    ext["spec"] = "spec/sys/IndexListM.tla (IndexListEv.tla, MC_IndexListM, Gen_IndexListM, Trace_IndexListM)"
    _mc(ctx, ext, "MC_IndexListM", "MC_IndexListM.cfg", workers=2)
    def describe(m):
        c = m["case"]
        return (json.dumps(c["xs"]), "IndexList::from_iter(%s)%s: %s" % (json.dumps(c["xs"]), " (String elements)" if m.get("strings") else "", json.dumps(m["diff"])[:600]))
    def bad_index(o):
        o["index_of"][o["xs"][1] - 1] += 1
        return o
    def m_index_of(e):
        if e["op"] == "index_of" and e["res"] == "ok" and e["out"] >= 0:
            e["out"] += 1
            return e
    def m_iter(e):
        if e["op"] == "iter" and e["res"] == "ok" and len(e["out"]) >= 3 and e["out"][0] != e["out"][1]:
            e["out"][0], e["out"][1] = e["out"][1], e["out"][0]
            return e
    objs, rp, rec, ok = _ab(ctx, ext, "indexlist", "indexlist",
                            [("Gen_IndexListM", "Gen_IndexListM.thorough.cfg" if ctx.thorough else "Gen_IndexListM.cfg", 1)],
                            "Trace_IndexListM", describe,
                            [("expected index_of + 1", lambda o: not o["dup"] and len(o["xs"]) >= 2, bad_index)],
                            [("index_of + 1", m_index_of), ("iter: first two swapped", m_iter)])
    ext["observations"] = ["from_iter on a sequence with a repeated element (no documented contract, not constrained): %s" % json.dumps(rp.get("repetition_observations"))]
    ext["rule"] = ("MC: every from_iter argument of length <= 3 over 3 elements x every observer with every candidate answer; A: every argument of length <= %d over %d elements "
                   "(i64 and String elements): len, is_empty, iter, into_iter, Debug, index_of / contains for all elements and one absent, list[i] incl. the out-of-range panic; "
                   "B: seeded histories (lists up to 40 elements, negative elements), every event a step of IndexListM") % ((5, 5) if ctx.thorough else (4, 4))


# ------------------------------------------------------------------------------------------------ Grid (C07)
def grid_part(ctx):
    ext = _ext(ctx, "Grid")
    ext["spec"] = "spec/sys/GridM.tla (GridEv.tla, MC_GridM, Gen_GridM, Trace_GridM)"
    _mc(ctx, ext, "MC_GridM", "MC_GridM.d1.cfg", workers=4)
    _mc(ctx, ext, "MC_GridM", "MC_GridM.d2.cfg", workers=4, coverage=False)
    if ctx.thorough:
        _mc(ctx, ext, "MC_GridM", "MC_GridM.d3.cfg", workers=4, coverage=False)
    def describe(m):
        c = m["case"]
        last = {k: v for k, v in c["last"].items() if k != "pre"}
        return ("%s:%s" % (last.get("op"), _h([c["last"], c["dim"]])),
                "Grid (dimension %d): from support %s, stored %s -> %s, default %s, after %s: %s" % (
                    c["dim"], json.dumps(c["last"]["pre"]["supp"]), json.dumps(c["last"]["pre"]["dom"]), json.dumps(c["last"]["pre"]["vals"]),
                    c["last"]["pre"]["dflt"], json.dumps(last), json.dumps(m["diff"])[:600]))
    def bad_get(o):
        o["get"][0] += 1
        return o
    def bad_iter(o):
        o["iter"][0], o["iter"][1] = o["iter"][1], o["iter"][0]
        o["support"][0], o["support"][1] = o["support"][1], o["support"][0]
        return o
    def m_get(e):
        if e["op"] in ("get", "index") and e["res"] == "ok":
            e["out"] += 1
            return e
    def m_support(e):
        if e["op"] == "support" and e["res"] == "ok" and len(e["out"]) >= 2 and e["out"][0] != e["out"][1]:
            e["out"][0], e["out"][1] = e["out"][1], e["out"][0]
            return e
    def m_cmp(e):
        if e["op"] == "deg_cmp" and e["res"] == "ok" and len(e["a"]) >= 2 and e["out"] != 0:
            e["out"] = -e["out"]
            return e
    t = "thorough" if ctx.thorough else "quick"
    # a swapped support only matters when the grid is regular: the trace corruption needs a regular grid, which the first histories provide
    objs, rp, rec, ok = _ab(ctx, ext, "grid", "grid", [("Gen_GridM", "Gen_GridM.d%d.%s.cfg" % (d, t), 2) for d in (1, 2, 3)],
                            "Trace_GridM", describe,
                            [("expected get + 1", lambda o: True, bad_get),
                             ("expected iter / support: first two swapped", lambda o: o["regular"] and len(o["iter"]) >= 2, bad_iter)],
                            [("get + 1", m_get), ("deg_cmp negated", m_cmp)])
    ext["observations"] = [
        "insert at a degree that the support does not list stores the entry without listing it (is_supported true, support() / iter() do not show it); "
        "remove keeps the degree in support() and iter() shows the default there while into_iter() skips it; constructors given a repeated degree list it twice. "
        "None of this is documented or used by the library, so listings of such irregular grids are recorded, not constrained: %s" % json.dumps(rec.get("listings_observed_on_irregular_grids"))]
    ext["rule"] = ("MC: every history over 3 degrees (dimension 1, 2%s), entries 0..1, listed supports of length <= 2 with repetition; A: every transition "
                   "(pre-state regular or not x insert / remove / get_mut / map / truncated / none) of that domain (supports up to length %d) rebuilt on Grid<isize|isize2|isize3, i64>: "
                   "get, index, tuple index, is_supported, get_default always, support / iter / into_iter on regular post-states; "
                   "B: seeded histories on all six degree types incl. degree arithmetic (add, sub, zero, is_zero, Ord, Display, tuple conversions)") % (
                       ", 3" if ctx.thorough else "", 3 if ctx.thorough else 2)


# ------------------------------------------------------------------------------------------------ Path (C18)
def path_part(ctx):
    ext = _ext(ctx, "Path")
    ext["spec"] = "spec/sys/PathM.tla (PathEv.tla, MC_PathM, Gen_PathM, Trace_PathM; strings via spec/lib/Chars.tla)"
    _mc(ctx, ext, "MC_PathM", "MC_PathM.thorough.cfg" if ctx.thorough else "MC_PathM.cfg", workers=6)
    def describe(m):
        c = m["case"]
        return (_h([c["p"], c["q"]]), "Path p=%s q=%s: %s" % (json.dumps(c["p"]), json.dumps(c["q"]), json.dumps(m["diff"])[:600]))
    def bad_eq(o):
        o["unori_eq"] = not o["unori_eq"]
        return o
    def bad_glue(o):
        o["connect"]["out"]["edges"][0] += 7
        return o
    def m_connect(e):
        n = len(e.get("out", {}).get("edges", [])) if e["op"] == "connect" and e["res"] == "ok" else 0
        if n >= 4 or (n >= 2 and not e["out"]["closed"]):       # (a 3-cycle with two labels swapped is the same cycle)
            e["out"]["edges"][0], e["out"]["edges"][1] = e["out"]["edges"][1], e["out"]["edges"][0]
            return e
    def m_eq(e):
        if e["op"] == "unori_eq" and e["res"] == "ok":
            e["out"] = not e["out"]
            return e
    def m_adj(e):
        if e["op"] == "is_adj" and e["res"] == "ok":
            e["out"] = not e["out"]
            return e
    objs, rp, rec, ok = _ab(ctx, ext, "path", "path",
                            [("Gen_PathM", "Gen_PathM.thorough.cfg" if ctx.thorough else "Gen_PathM.quick.cfg", 4), ("Gen_PathM", "Gen_PathM.rep.cfg", 2)],
                            "Trace_PathM", describe,
                            [("expected unori_eq negated", lambda o: o["simple"] and len(o["p"]["edges"]) == 3 and o["p"]["closed"], bad_eq),
                             ("expected connect result changed", lambda o: o["simple"] and o["connect"]["kind"] == "glued", bad_glue)],
                            [("connect result: two labels swapped", m_connect), ("unori_eq negated", m_eq), ("is_adj negated", m_adj)])
    ext["observations"] = [
        "connect of two copies of a one-label arc ([e] with [e]) leaves an EMPTY closed path (min_edge would panic on it); the library never builds such arcs, the case is outside the machine's domain",
        "unori_eq on circles in which a label occurs more than once (not produced by the library: an edge is traversed once) can deny cyclic equality: %d of %d such pairs, e.g. %s" % (
            rp.get("of_which_unori_eq_differs_from_cyclic_equality", 0), rp.get("pairs_with_repeated_labels_observed", 0), json.dumps(rp.get("example")))]
    ext["rule"] = ("MC: both registers over every simple path with labels 1..4 and length <= %d, every action; laws of unori_eq (equivalence, reversal, rotation), of gluing and of reduce in every state; "
                   "A: every ordered pair of those paths: unori_eq both ways, is_connectable(_bothends), min_edge, ends, len, kind, contains, reduce, Display, connect (panic iff not connectable; arc results "
                   "exactly, cycles up to rotation / reflection); B: seeded histories growing arcs of up to 40 labels by connect until they close, rotated / reflected copies, and is_adj on the circles of random "
                   "resolutions, the Seifert circles and the components of random braid closures") % (4 if ctx.thorough else 3)


# ------------------------------------------------------------------------------------------------ Sign / format helpers (C16)
def fmt_part(ctx):
    ext = _ext(ctx, "SignFmt")
    ext["spec"] = "spec/sys/SignFmt.tla (SignFmtEv.tla, MC_SignFmt, Gen_SignFmt, Trace_SignFmt; strings via spec/lib/Chars.tla)"
    _mc(ctx, ext, "MC_SignFmt", "MC_SignFmt.cfg", workers=4, coverage=False)
    def describe(m):
        c = m["case"]
        ident = c.get("n", c.get("terms", c.get("ss")))
        return ("%s:%s" % (c["kind"], json.dumps(ident)), "format helpers / Sign on %s: %s" % (json.dumps(ident), json.dumps(m["diff"])[:600]))
    def bad_sub(o):
        o["sub"][-1] += 1
        return o
    def bad_lc(o):
        o["out"] = o["out"] + [32]
        return o
    def m_sup(e):
        if e["op"] == "superscript" and e["res"] == "ok" and e["n"] < -9:
            e["out"] = e["out"][1:]
            return e
    def m_sign(e):
        if e["op"] == "sign_parity" and e["res"] == "ok":
            e["out"] = -e["out"]
            return e
    def m_lc(e):
        if e["op"] == "lc" and e["res"] == "ok" and len(e["terms"]) >= 2:
            k = e["out"].index(32)
            e["out"][k + 1] = 43 if e["out"][k + 1] == 45 else 45
            return e
    objs, rp, rec, ok = _ab(ctx, ext, "fmt", "fmt", [("Gen_SignFmt", "Gen_SignFmt.thorough.cfg" if ctx.thorough else "Gen_SignFmt.quick.cfg", 2)],
                            "Trace_SignFmt", describe,
                            [("expected subscript: last digit + 1", lambda o: o["kind"] == "int" and o["n"] == -120, bad_sub),
                             ("expected lc output: trailing blank", lambda o: o["kind"] == "lc" and len(o["terms"]) == 2, bad_lc)],
                            [("superscript: minus sign dropped", m_sup), ("parity sign negated", m_sign), ("lc: first operator flipped", m_lc)])
    ext["observations"] = [
        "GetSign::sign() of zero is Neg (the library only asks for signs of non-zero numbers; zero is not constrained by the machine)",
        "Sign::from_parity is not available for usize / isize (the is_even crate implements IsEven for fixed-width integers only)",
        "subscript / superscript compute `-i as usize`: isize::MIN overflows (a panic under overflow checks); arguments are driven inside the 32-bit range TLC computes in"]
    ext["rule"] = ("MC: for every integer of -1200..1200 the scripts read back to the integer, are injective on neighbours / negation / shifts, use only script code points; sign, parity, paren_expr and "
                   "lc laws; A: every integer of -%d..%d plus boundary values up to 2^31-1 through subscript / superscript (isize, i32, i64, usize), from_parity, sign(), Sign::from (panic iff not +-1), "
                   "every linear combination of <= %d terms over {1, x, y} x {-2..2} through lc, paren_expr on fixed strings; B: seeded calls with wide arguments and with coefficient strings printed by "
                   "the real GaussInt / Ratio types, all Sign operations on all five integer widths") % ((3000, 3000, 3) if ctx.thorough else (300, 300, 2))


# ------------------------------------------------------------------------------------------------ Tng / TngComp (C18)
def tng_part(ctx):
    ext = _ext(ctx, "Tng")
    ext["spec"] = "spec/sys/TngM.tla (TngEv.tla, PathOps.tla, MC_TngM, Gen_TngM, Trace_TngM)"
    _mc(ctx, ext, "MC_TngM", "MC_TngM.thorough.cfg" if ctx.thorough else "MC_TngM.cfg", workers=6, timeout=1700)
    def describe(m):
        c = m["case"]
        last = {k: v for k, v in c["last"].items() if k != "pre"}
        return ("%s:%s" % (last.get("op"), _h(c["last"])), "Tng %s after %s: %s" % (json.dumps(c["last"]["pre"]), json.dumps(last), json.dumps(m["diff"])[:600]))
    def bad_out(o):
        o["out"][0]["edges"][0] += 9
        return o
    def bad_find(o):
        o["find_label"][0] = 0 if o["find_label"][0] != 0 else 1
        return o
    def m_append(e):
        if e["op"] in ("append_arc", "connect") and e["res"] == "ok" and len(e["out"]) >= 2:
            e["out"][0], e["out"][1] = e["out"][1], e["out"][0]
            return e
    def m_counts(e):
        if e["op"] == "counts" and e["res"] == "ok":
            e["euler"] += 1
            return e
    def m_index(e):
        if e["op"] == "index_of" and e["res"] == "ok" and e["out"] >= 0:
            e["out"], e["has"] = -1, False
            return e
    objs, rp, rec, ok = _ab(ctx, ext, "tng", "tng", [("Gen_TngM", "Gen_TngM.thorough.cfg" if ctx.thorough else "Gen_TngM.quick.cfg", 4)],
                            "Trace_TngM", describe,
                            [("expected component list: a label changed", lambda o: o["last"]["op"] == "append_arc" and len(o["out"]) >= 1, bad_out),
                             ("expected find_comp answer changed", lambda o: o["last"]["op"] == "connect", bad_find)],
                            [("listing: first two components swapped", m_append), ("euler number + 1", m_counts), ("index_of: found -> None", m_index)])
    ext["observations"] = [
        "append_arc on a tangle that Tng::new was given with arcs still sharing an end label (outside the machine's domain; the builder only creates glued tangles): "
        "Tng::new([arc 1-2, arc 2-3]).append_arc(arc 3-4) -> %s (remove(j) shifts the index i when j < i; inside the domain j > i always, model-checked)" % json.dumps(rec.get("probe_append_to_unglued_tangle"))]
    ext["rule"] = ("MC: every tangle reachable on labels 1..%d by append_arc / connect / remove_at, every action; invariants: well formed, sorted (arcs first, by least label), fully glued, "
                   "appending two arcs commutes, labels are preserved; A: every such tangle x one operation (append_arc, connect + connected, remove_at, convert_edges with an order-reversing "
                   "relabelling, from_resolved of every V / H crossing): component list up to orientation, comp(i), ncomps, is_empty, is_closed, contains_circle, euler_num, endpts, find_comp "
                   "(circle / label / connectable), index_of / contains; B: the resolved crossings of random resolutions of random braid closures glued one by one as the complex builder does, "
                   "and free histories on fresh labels, every event a step of TngM") % (5 if ctx.thorough else 4)
