"""C10 — LLL and LLL-based Hermite normal form return unimodular, reduced results."""
import json

def run(ctx):
    # design-level LLL machine run to completion from every small basis: lattice preserved, potential decreases, terminates, result reduced
    ctx.tlc_mc("MC_LLL", "MC_LLL.thorough.cfg" if ctx.thorough else "MC_LLL.cfg", workers=8, timeout=3000, coverage=False)
    # A: TLC enumerates every small integer matrix (2x2 entries -3..3, 2x3 / 3x2 / 3x3 entries -1..1; thorough: also 2x3 entries -2..2)
    # (quick: a seed-dependent 1/12 sample of the 19683 3x3 matrices - three rows are the least that make the update of the
    # Gram data of a *later* row at a swap observable, and small sparse matrices have the exact orthogonalities random ones lack)
    cfgs = ["2x2v3", "2x3v1", "3x2v1", "3x3v1"] + (["2x3v2"] if ctx.thorough else [])
    path = ctx.path("gen_all.ndjson")
    nen = 0
    with open(path, "w") as f:
        for c in cfgs:
            pth, objs = ctx.tlc_gen("Gen_SmallMats", "Gen_SmallMats.%s.cfg" % c, workers=1, out_name="gen_%s.ndjson" % c)
            lines = open(pth).read().splitlines()
            if c == "3x3v1" and not ctx.thorough:
                lines = [l for i, l in enumerate(lines) if i % 12 == ctx.seed % 12]
            f.write("".join(l + "\n" for l in lines)); nen += len(lines)
    trace = ctx.path("trace.ndjson")
    summ, _, _ = ctx.yv("c10", "record", "--seed", ctx.seed, "--tier", ctx.tier, "--in", path, "--out", trace, timeout=3000)
    rec = summ["record"]
    r = ctx.tlc_trace("Trace_LLL", "Trace_LLL.cfg", trace, timeout=3000)
    ctx.trace_verdict(r, trace, "lll / lll_hnf call")
    ctx.cov["conformance"].append({"direction": "spec->impl inputs + impl->spec validation (results)", **rec, "accepted": r["accepted"], "tlc_enumerated_matrices": nen})
    # step level (hook H2): every state change of the LLL working data must be a step of LllSteps.tla with det / lambda
    # equal to the Gram data of the current basis
    strace = ctx.path("steps.ndjson")
    summ2, _, _ = ctx.yv("c10", "steps", "--seed", ctx.seed, "--tier", ctx.tier, "--out", strace, timeout=3000)
    r2 = ctx.tlc_trace("Trace_LllSteps", "Trace_LllSteps.cfg", strace, timeout=3000, tag="Trace_LllSteps")
    ctx.trace_verdict(r2, strace, "LLL step", key_prefix="steps")
    ctx.cov["conformance"].append({"direction": "impl->spec (steps, cfg(yui_verif) hook)", **summ2["steps"], "accepted": r2["accepted"]})
    ctx.cov["evaluations"] += summ2["steps"]["events"]
    if r2["accepted"]:
        ctx.cov["traces_validated_against_impl"] += summ2["steps"]["lll_runs"]
    ctx.cov["evaluations"] += rec["events"]
    ctx.cov["distinct_nontrivial"] += rec["cases"] + rec["lll_inputs_with_independent_rows"]
    if r["accepted"]:
        ctx.cov["traces_validated_against_impl"] += rec["cases"]
    ctx.cov["rule"] = ("per case: lll_hnf on a random matrix of any shape/rank (incl. 0 rows/columns, dependent rows, entries to 10^60/10^300 for BigInt-based rings) with all four transform-flag "
                       "combinations, validated for H = P A, P P^-1 = I, echelon form, normalised pivots, smaller norms above pivots, unit determinants (dims <= 4), same H for every flag "
                       "combination; lll on bases with independent rows (skewed to force swaps), validated for B = P A, det P a unit, size-reducedness and the Lovasz condition with the ring's "
                       "constant, Gram data defined by determinants in the spec")
    ctx.assumptions += ["independence of the rows of an LLL input is decided with the library's own snf rank before the call (dependent inputs are not issued)",
                        "size-reducedness bound |mu|^2 <= 1/4 (Z), 1/2 (Z[i]), 3/4 (Z[w]): what nearest-element rounding guarantees",
                        "step-level validation covers lll over Z (BigInt); lll_hnf and the quadratic rings are validated through their results only"]
    lines = open(trace).read().splitlines()
    ctx.add_samples([json.loads(l) for l in lines[1:2]])

def replay(ctx, path):
    return ctx.replay_trace(path)
