"""C12 — sparse kernels (triangular solve, Schur complement, block splitting) are exact, on one thread and on many."""
import json

def run(ctx):
    ctx.tlc_mc("MC_Kernels", "MC_Kernels.cfg", workers=1, coverage=False, timeout=900, cache=True)
    # concurrent column grouping: every intersection graph on N columns x every interleaving of check / union
    ctx.tlc_mc("MC_GroupCols", "MC_GroupCols.thorough.cfg" if ctx.thorough else "MC_GroupCols.quick.cfg", workers=8, timeout=1700, coverage=True)
    # extension: the union-find structure behind the column grouping as a state machine (all partitions of 5 elements reachable by unions;
    # every union sequence of length 3 on 4 elements replayed on UnionFind and KeyedUnionFind; random histories validated)
    ctx.tlc_mc("MC_UnionFindM", "MC_UnionFindM.cfg", workers=4, timeout=600, coverage=True)
    upath, uobjs = ctx.tlc_gen("Gen_UnionFindM", "Gen_UnionFindM.thorough.cfg" if ctx.thorough else "Gen_UnionFindM.cfg", workers=1)
    usumm, umism, _ = ctx.yv("uf", "replay", "--in", upath)
    for m in umism[:20]:
        ctx.violation("unionfind:replay:%s" % json.dumps(m["case"].get("unions")), "UnionFind after unions %s: partition differs from the model's %s (%s)" % (
            json.dumps(m["case"].get("unions")), json.dumps(m["case"].get("classes")), json.dumps(m.get("got_groups", m.get("panic")))), m)
    utrace = ctx.path("uf_trace.ndjson")
    usumm2, _, _ = ctx.yv("uf", "record", "--seed", ctx.seed, "--tier", ctx.tier, "--out", utrace)
    ur = ctx.tlc_trace("Trace_UnionFindM", "Trace_UnionFindM.cfg", utrace, timeout=1800, tag="Trace_UnionFindM")
    ctx.trace_verdict(ur, utrace, "union-find history", key_prefix="unionfind")
    ctx.cov["conformance"].append({"direction": "UnionFind: spec->impl replay + impl->spec histories", **usumm["replay"], **{"recorded_" + k: v for k, v in usumm2["record"].items()}, "accepted": ur["accepted"]})
    ctx.cov["evaluations"] += usumm["replay"]["histories"] + usumm2["record"]["events"]
    # A: TLC enumerates every unit-triangular 3x3 integer matrix with entries -1..1 and right-hand sides (quick: every 9th)
    path, objs = ctx.tlc_gen("Gen_Kernels", "Gen_Kernels.cfg", workers=1)
    # ... and every 0/1 pattern on 3x4 for the block splitting (one thread and sixteen)
    path2, objs2 = ctx.tlc_gen("Gen_DirSum", "Gen_DirSum.cfg", workers=1)
    with open(path, "a") as f:
        f.write(open(path2).read())
    objs = objs + objs2
    trace = ctx.path("trace.ndjson")
    summ, _, _ = ctx.yv("c12", "record", "--seed", ctx.seed, "--tier", ctx.tier, "--in", path, "--out", trace, timeout=1800)
    rec = summ["record"]
    r = ctx.tlc_trace("Trace_Kernels", "Trace_Kernels.cfg", trace, timeout=3000)
    ctx.trace_verdict(r, trace, "sparse kernel call")
    ctx.cov["conformance"].append({"direction": "spec->impl inputs + impl->spec validation", **rec, "accepted": r["accepted"], "tlc_enumerated_cases": len(objs)})
    ctx.cov["evaluations"] += rec["events"]
    ctx.cov["distinct_nontrivial"] += rec["cases"] * 3
    if r["accepted"]:
        ctx.cov["traces_validated_against_impl"] += rec["cases"]
    ctx.cov["rule"] = ("per case: random unit-triangular A (upper/lower, unit diagonal entries other than 1 over Q/F5/Z[i], explicit zeros) solved against random Y "
                       "(right, left, inverse, vector) on pools of 1, 2 and 16 threads and twice on the same pool - all answers must satisfy A X = Y and coincide; "
                       "Schur complement for r in 0..min(m,n) with and without transfer maps; direct-sum decomposition of permuted block-diagonal matrices with zero rows/columns")
    ctx.assumptions += ["the harness is built with debug assertions, so the library's own scratch-buffer assertion is active as well",
                        "block connectivity (no further splitting) is required only when the input stores no explicit zeros, as the property states"]
    lines = open(trace).read().splitlines()
    ctx.add_samples([json.loads(l) for l in lines[1:2]])

def replay(ctx, path):
    return ctx.replay_trace(path)
