"""C13 — sparse and dense matrix containers implement ordinary matrix algebra; Trans composes correctly."""
import json

def run(ctx):
    # the oracle: matrix operators satisfy the algebraic laws on all matrices dims 0..2, entries -1..1; Trans machine histories
    ctx.tlc_mc("MC_MatAlg", "MC_MatAlg.cfg", workers=8, coverage=False, timeout=900, cache=True)
    # A: TLC enumerates every small matrix (zero-dimensional shapes included)
    path, objs = ctx.tlc_gen("Gen_MatAlg", "Gen_MatAlg.cfg", workers=1)
    trace = ctx.path("trace.ndjson")
    summ, _, _ = ctx.yv("c13", "record", "--seed", ctx.seed, "--tier", ctx.tier, "--in", path, "--out", trace, timeout=1800)
    rec = summ["record"]
    r = ctx.tlc_trace("Trace_MatAlg", "Trace_MatAlg.cfg", trace, timeout=3000)
    ctx.trace_verdict(r, trace, "matrix container operation")
    ctx.cov["conformance"].append({"direction": "spec->impl operands + impl->spec validation", **rec, "accepted": r["accepted"], "enumerated_matrices": len(objs)})
    ctx.cov["evaluations"] += rec["events"]
    ops = set()
    for l in open(trace):
        ops.add(json.loads(l)["op"])
    ctx.cov["distinct_nontrivial"] += rec["events"] - rec["cases_with_zero_dimension"]
    ctx.cov["ops_covered"] = sorted(ops)
    if r["accepted"]:
        ctx.cov["traces_validated_against_impl"] += rec["trans_histories"]
    ctx.cov["rule"] = ("every TLC-enumerated matrix (dims 0..2, entries -1..1) as operand A with deterministic picks of B and C, once without and once with all zeros "
                       "stored explicitly, plus seeded random operands (dims 0..5/7, explicit zeros, Z/Q/F5/F3) through ~75 container operations each; "
                       "Trans histories (append / append_perm / merge / merged / reduce / sub) with forward, backward and both matrices observed after every step")
    ctx.assumptions += ["from_entries is never given a repeated (i,j) position (documented precondition)",
                        "a sparse matrix is projected to its dense meaning by reading every stored entry through iter()"]
    lines = open(trace).read().splitlines()
    ctx.add_samples([json.loads(l) for l in lines[3000:3002]])

def replay(ctx, path):
    return ctx.replay_trace(path)
