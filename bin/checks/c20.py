"""C20 — the ykh command (kh, ckh) reports the library's result for every option combination."""
import json, os, threading, copy
import vlib

REPO = os.environ.get("VERIF_REPO") or os.environ.get("YUI_REPO", "/repo")
YKH_TARGET = os.path.join(vlib.BUILD, "ykh-alt" if vlib.ALT else "ykh")
YKH = os.path.join(YKH_TARGET, "release", "ykh")
MC_ACTIONS = ["DoErr", "DoTable", "DoInternal"]


def build_ykh(ctx):
    """The binary under test is rebuilt from /repo's working tree on every run (incremental)."""
    ctx.log("building ykh from %s/bin-ykh into %s" % (REPO, YKH_TARGET))
    rc, out = vlib.sh(["cargo", "build", "--release", "--offline", "--manifest-path", os.path.join(REPO, "bin-ykh", "Cargo.toml"),
                       "--target-dir", YKH_TARGET], timeout=3000)
    if rc != 0 or not os.path.exists(YKH):
        print(out[-6000:])
        raise vlib.ToolError("ykh build failed (rc=%d)" % rc)


def cv_str(cv):
    def t(x):
        if x["k"] == "int":
            return str(x["v"]) if x["canon"] else "~%d" % x["v"]
        if x["k"] == "rat":
            return "%d/%d" % (x["v"], x["d"])
        return x["x"] if x["k"] == "var" else "?"
    return ",".join(t(x) for x in cv)


def point_key(e):
    return "%s:%s:c=%s%s%s:%s" % (e["cmd"], e["ctype"], cv_str(e["cv"]), ":m" if e["mirror"] else "", ":r" if e["reduced"] else "", e["ic"])


def slim(e):
    e = copy.deepcopy(e)
    for k in ("table",):
        if k in e and len(json.dumps(e[k])) > 700:
            e[k] = {"cols": e[k]["cols"], "rows": e[k]["rows"], "zeros": e[k]["zeros"], "cells": e[k]["cells"][:2] + ["..."]}
    if "lib" in e and len(e["lib"].get("cells", [])) > 4:
        e["lib"]["cells"] = e["lib"]["cells"][:4] + ["..."]
    return e


def validate(ctx, trace, what, tag, max_rounds=8):
    """Trace_Cli on a trace; every rejected event becomes a violation keyed by its abstract point, then is removed
    and the rest is validated again (so that one bad point does not hide the others)."""
    cur, n_rej, first = trace, 0, None
    for rnd in range(max_rounds):
        r = ctx.tlc_trace("Trace_Cli", "Trace_Cli.cfg", cur, timeout=3000, tag="%s_%d" % (tag, rnd))
        if first is None:
            first = r
        if r["accepted"]:
            break
        n_rej += 1
        ev = r["event"] if isinstance(r["event"], dict) else {}
        at = r["at"]
        if not ev or not at:
            ctx.trace_verdict(r, cur, what, key_prefix="cli-trace")
            break
        exp = "an error result" if ev.get("lib", {}).get("res") != "ok" else "the library's table"
        ctx.violation("cli:" + point_key(ev),
                      "%s: `ykh %s` exited %s with stdout class %s; Cli.tla demands otherwise at this point (%s): stdout=%r stderr=%r lib=%s" % (
                          what, " ".join(ev.get("argv", [])), ev.get("code"), ev.get("out"), exp, ev.get("stdout", "")[:300], ev.get("stderr", "")[:120],
                          json.dumps(ev.get("lib", {}))[:400]),
                      {"event": ev, "argv": ev.get("argv"), "input": ev.get("input"), "trace_file": trace, "line": at, "tlc_log": r["log"]})
        lines = open(cur).read().splitlines()
        del lines[at - 1]
        cur = ctx.path("%s_minus_%d.ndjson" % (tag, rnd + 1))
        open(cur, "w").write("\n".join(lines) + "\n")
    if n_rej == 0:
        ctx.cov["traces_validated_against_impl"] += 1
    return first, n_rej


CORRUPTIONS = ["rank", "errtable", "col", "exit", "tors", "ring", "sym", "drop"]


def corrupt(lines, mode):
    """One changed field in one recorded event (or one event's cell dropped); returns (new lines, line no) or None."""
    out = list(lines)
    for k in range(len(lines) // 3, len(lines)):
        e = json.loads(lines[k])
        ok_tab = e["lib"]["res"] == "ok" and e["lib"]["kind"] in ("Table2D", "Seq1D") and e["table"]["cells"]
        if mode == "rank" and ok_tab and any(c["rank"] >= 1 for c in e["lib"]["cells"]):
            [c for c in e["lib"]["cells"] if c["rank"] >= 1][0]["rank"] += 1
        elif mode == "col" and ok_tab and len(e["table"]["cols"]) > 2 and e["lib"]["kind"] == "Table2D":
            e["table"]["cols"][0], e["table"]["cols"][1] = e["table"]["cols"][1], e["table"]["cols"][0]
            if not any(c["c"] in (1, 2) for c in e["table"]["cells"]):
                continue
        elif mode == "exit" and e["exit"] == "nonzero":
            e["exit"] = "zero"
        elif mode == "errtable" and e["exit"] == "nonzero" and e["out"] == "none":
            e["out"] = "table2d"
        elif mode == "tors" and ok_tab and any(c["tors"] for c in e["lib"]["cells"]):
            c = [c for c in e["lib"]["cells"] if c["tors"]][0]
            c["tors"] = c["tors"] + [c["tors"][0]]
        elif mode == "ring" and e["lib"]["res"] == "ok" and e["lib"]["ring"]["base"] == "F2":
            e["lib"]["ring"]["base"] = "F3"
        elif mode == "sym" and ok_tab:
            tok = e["table"]["cells"][0]["tok"]
            [t for t in tok if t["k"] == "sym"][0]["s"] = "Q7"
        elif mode == "drop" and ok_tab and len(e["table"]["cells"]) >= 2:
            e["table"]["cells"].pop()
            e["table"]["zeros"] += 1
        else:
            continue
        out[k] = json.dumps(e, separators=(",", ":"), ensure_ascii=True)
        return out, k + 1
    return None


def binding_selftest(ctx, trace, modes):
    """The binding is real: a single corrupted field of a freshly recorded trace must be rejected at that very event."""
    lines = open(trace).read().splitlines()
    res = []
    for m in modes:
        c = corrupt(lines, m)
        if c is None:
            continue
        new, at = c
        p = ctx.path("corrupt_%s.ndjson" % m)
        open(p, "w").write("\n".join(new) + "\n")
        r = ctx.tlc_trace("Trace_Cli", "Trace_Cli.cfg", p, timeout=3000, tag="corrupt_" + m)
        if r["accepted"] or r["at"] != at:
            raise vlib.ToolError("binding self-test: trace with corrupted field '%s' at event %d was %s" % (m, at, "accepted" if r["accepted"] else "rejected at %s" % r["at"]))
        res.append({"corruption": m, "event": at, "rejected_at": r["at"]})
        try:
            os.remove(p)
        except OSError:
            pass
    ctx.cov["binding_selftest"] = res
    ctx.log("binding self-test: %d corrupted traces, all rejected at the corrupted event" % len(res))


def run(ctx):
    work = ctx.path("inputs")
    # MC (the whole option product + theorems of the table + grammar round trip) runs while the binary is being exercised
    mc_err = []

    def mc():
        try:
            ctx.tlc_mc("MC_Cli", "MC_Cli.thorough.cfg" if ctx.thorough else "MC_Cli.cfg", workers=6, must_cover=MC_ACTIONS, timeout=1500)
        except Exception as ex:            # re-raised in the main thread
            mc_err.append(ex)
    th = threading.Thread(target=mc)
    th.start()
    try:
        # A: TLC prints the product with the demanded outcome and library call; the harness runs the binary at every point
        path, objs = ctx.tlc_gen("Gen_Cli", "Gen_Cli.thorough.cfg" if ctx.thorough else "Gen_Cli.quick.cfg", workers=4)
        build_ykh(ctx)
        trace_a = ctx.path("trace_a.ndjson")
        summ, mism, _ = ctx.yv("c20", "replay", "--tier", ctx.tier, "--in", path, "--out", trace_a, "--ykh", YKH, "--work", work,
                               "--per", 3 if ctx.thorough else 1, timeout=3000)
        rp = summ["replay"]
        for m in mism[:200]:
            ctx.violation("cli:" + m["key"], "`ykh %s`: %s" % (" ".join(m["argv"]), m["what"]), m)
        ra, rej_a = validate(ctx, trace_a, "product replay", "trace_a")
        ctx.cov["conformance"].append({"direction": "spec->impl", **rp, "events_validated_by_Trace_Cli": rp["runs"], "events_rejected": rej_a})
        ctx.cov["evaluations"] += rp["runs"]
        ctx.cov["distinct_nontrivial"] += rp["distinct_tables"]
        # B: seeded random instances (other integers / spellings / links / PD relabellings / argv spellings), validated by TLC only
        trace_b = ctx.path("trace_b.ndjson")
        summ, mism_b, _ = ctx.yv("c20", "record", "--seed", ctx.seed, "--tier", ctx.tier, "--in", path, "--out", trace_b, "--ykh", YKH, "--work", work, timeout=3000)
        rec = summ["record"]
        for m in mism_b[:200]:
            ctx.violation("cli:" + m["key"], "`ykh %s`: %s" % (" ".join(m["argv"]), m["what"]), m)
        rb, rej_b = validate(ctx, trace_b, "random instances", "trace_b")
        ctx.cov["conformance"].append({"direction": "impl->spec", **rec, "events_rejected": rej_b})
        ctx.cov["evaluations"] += rec["events"]
        ctx.cov["distinct_nontrivial"] += rec["distinct_tables"]
        if rej_a == 0:
            binding_selftest(ctx, trace_a, CORRUPTIONS if ctx.thorough else ["rank", "errtable", "drop"])
    finally:
        th.join()
    if mc_err:
        raise mc_err[0]
    ctx.cov["rule"] = ("MC: every point of {kh,ckh} x {Z,Q,F2,F3} x (all -c token sequences of length<=2 over ints/non-canonical 0/rationals/H/T/junk, + triples) x -m x -r x 10 input classes "
                       "with every admissible observable; theorems of the decision table and round trip of the cell grammar as ASSUMEs. "
                       "A: one run of the freshly built binary per product point printed by Gen_Cli (thorough: 3 inputs per table point), stdout lexed and compared with a direct library call "
                       "(KhHomology / into_bigraded / KhComplex::gen_grid on the ring and (h,t) the spec derives), Rust-side and by Trace_Cli. "
                       "B: seeded random instances. evaluations = runs of the binary; distinct_nontrivial = distinct (kind, ring, printed table) triples that were compared with the library.")
    ctx.cov["points_in_product"] = len(objs)
    ctx.cov["outcome_classes"] = {c: sum(1 for o in objs if o["exp"]["class"] == c) for c in ("Error", "Table2D", "Seq1D", "GenTable")}
    ctx.assumptions += [
        "only the default unicode format and the options -t -c -m -r are exercised (-f tex, -g/-a/-s/-d output and the khi/ckhi commands are outside the property)",
        "PD-shaped JSON in which every label occurs exactly twice is taken to be a diagram (validity of such codes is C18's subject); codes with an odd label count must be an error result",
        "integer coefficient values are kept within |n| <= 12 and diagrams within 10 crossings (machine-integer envelope of the i64 build)",
        "ckh prints the generators of a complex simplified by Gaussian elimination, which is not determined by the parameters (it differs between runs over Z and for inhomogeneous (h,t)); "
        "there only well-formedness, the ring and the Euler characteristic (per q-degree over Z with homogeneous (h,t)) are compared; over fields with homogeneous (h,t) and for all of kh the cells are compared exactly",
        "the lexer of table cells (Rust) is trusted; the cell grammar, the position rule and the comparison are in Cli.tla",
        "a failure of the library itself on the parameters of a table point (panic in the direct call) is an internal failure: the spec then demands an error result",
    ]
    lines = open(trace_a).read().splitlines()
    pick = [json.loads(l) for l in lines if '"Table2D"' in l and '"ok"' in l][:1] + [json.loads(l) for l in lines if '"internal"' in l][:1]
    ctx.add_samples([slim(e) for e in pick], limit=2)


def replay(ctx, path):
    """bin/check C20 --replay <file>: re-runs the stored invocation on the current tree; exit 1 if it still violates."""
    obj = json.load(open(path))
    print(obj.get("what", ""))
    rp = obj.get("replay", {})
    build_ykh(ctx)
    ctx.build_harness()
    argv = rp.get("argv")
    if argv:
        rc, out = vlib.sh([YKH] + argv, timeout=120, env={"RUST_BACKTRACE": "0"})
        print("$ ykh %s\n%s\n(exit %d)" % (" ".join(repr(a) for a in argv), out, rc))
    point = rp.get("point") or (rp.get("event") and None)
    if not point:
        ev = rp.get("event")
        if not ev:
            return 0
        # a trace rejection: validate the re-run of the same argv
        point = {k: ev[k] for k in ("cmd", "ctype", "cv", "mirror", "reduced", "ic")}
        point.update({"exp": {"class": "Error", "why": "?"}, "mutated": True, "force_lib": True, "supported": True, "parsed": True,
                      "ring": ev["lib"]["ring"], "h": ev["lib"]["h"], "t": ev["lib"]["t"], "mode": "exact"})
    point = dict(point)
    point["argv"] = argv
    one = ctx.path("one.ndjson")
    open(one, "w").write(json.dumps(point) + "\n")
    tr = ctx.path("one_trace.ndjson")
    summ, mism, _ = ctx.yv("c20", "replay", "--in", one, "--out", tr, "--ykh", YKH, "--work", ctx.path("inputs"), "--force-input", rp.get("input", ""))
    r = ctx.tlc_trace("Trace_Cli", "Trace_Cli.cfg", tr, tag="replay_one")
    for m in mism:
        print("still differs:", m["what"])
    if mism or not r["accepted"]:
        print("VIOLATION property=%s replay=%s" % (ctx.pid, path))
        return 1
    print("the stored invocation now conforms to Cli.tla")
    return 0
