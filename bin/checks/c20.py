"""C20 — the ykh command (kh, ckh) reports the library's result for every option combination."""
import json, os, threading, copy
import vlib

REPO = os.environ.get("VERIF_REPO") or os.environ.get("YUI_REPO", "/repo")
YKH_TARGET = os.path.join(vlib.BUILD, "ykh-alt" if vlib.ALT else "ykh")
YKH = os.path.join(YKH_TARGET, "release", "ykh")
MC_ACTIONS = ["DoErr", "DoTable", "DoInternal"]


def build_ykh(ctx):
    """The binary under test is rebuilt from /repo's working tree on every run (incremental)."""
    ctx.log("building ykh from %s/bin-ykh into %s" % (REPO, YKH_TARGET))
    rc, out = vlib.sh(["cargo", "build", "--release", "--offline", "--manifest-path", os.path.join(REPO, "bin-ykh", "Cargo.toml"),
                       "--target-dir", YKH_TARGET], timeout=3000)
    if rc != 0 or not os.path.exists(YKH):
        print(out[-6000:])
        raise vlib.ToolError("ykh build failed (rc=%d)" % rc)


def cv_str(cv):
    def t(x):
        if x["k"] == "int":
            return str(x["v"]) if x["canon"] else "~%d" % x["v"]
        if x["k"] == "rat":
            return "%d/%d" % (x["v"], x["d"])
        return x["x"] if x["k"] == "var" else "?"
    return ",".join(t(x) for x in cv)


def point_key(e):
    return "%s:%s:c=%s%s%s:%s" % (e["cmd"], e["ctype"], cv_str(e["cv"]), ":m" if e["mirror"] else "", ":r" if e["reduced"] else "", e["ic"])


def slim(e):
    e = copy.deepcopy(e)
    for k in ("table",):
        if k in e and len(json.dumps(e[k])) > 700:
            e[k] = {"cols": e[k]["cols"], "rows": e[k]["rows"], "zeros": e[k]["zeros"], "cells": e[k]["cells"][:2] + ["..."]}
    if "lib" in e and len(e["lib"].get("cells", [])) > 4:
        e["lib"]["cells"] = e["lib"]["cells"][:4] + ["..."]
    return e


def validate(ctx, trace, what, tag, max_rounds=8, module="Trace_Cli", keyf=None, spec="Cli.tla", prefix="cli:", ext=False):
    """Trace_Cli (Trace_CliKhI for the khi/ckhi extension) on a trace; every rejected event becomes a violation keyed by
    its abstract point, then is removed and the rest is validated again (so that one bad point does not hide the others)."""
    keyf = keyf or point_key
    cur, n_rej, first = trace, 0, None
    for rnd in range(max_rounds):
        r = ctx.tlc_trace(module, module + ".cfg", cur, timeout=3000, tag="%s_%d" % (tag, rnd))
        if first is None:
            first = r
        if r["accepted"]:
            break
        n_rej += 1
        ev = r["event"] if isinstance(r["event"], dict) else {}
        at = r["at"]
        if not ev or not at:
            ctx.trace_verdict(r, cur, what, key_prefix="cli-trace")
            break
        exp = "an error result" if ev.get("lib", {}).get("res") != "ok" else "the library's table"
        ctx.violation(prefix + keyf(ev),
                      "%s: `ykh %s` exited %s with stdout class %s; %s demands otherwise at this point (%s): stdout=%r stderr=%r lib=%s" % (
                          what, " ".join(ev.get("argv", [])), ev.get("code"), ev.get("out"), spec, exp, ev.get("stdout", "")[:300], ev.get("stderr", "")[:120],
                          json.dumps(ev.get("lib", {}))[:400]),
                      {"event": ev, "argv": ev.get("argv"), "input": ev.get("input"), "trace_file": trace, "line": at, "tlc_log": r["log"], "ext": ext})
        lines = open(cur).read().splitlines()
        del lines[at - 1]
        cur = ctx.path("%s_minus_%d.ndjson" % (tag, rnd + 1))
        open(cur, "w").write("\n".join(lines) + "\n")
    if n_rej == 0:
        ctx.cov["traces_validated_against_impl"] += 1
    return first, n_rej


CORRUPTIONS = ["rank", "errtable", "col", "exit", "tors", "ring", "sym", "drop"]


def corrupt(lines, mode):
    """One changed field in one recorded event (or one event's cell dropped); returns (new lines, line no) or None."""
    out = list(lines)
    for k in range(len(lines) // 3, len(lines)):
        e = json.loads(lines[k])
        ok_tab = e["lib"]["res"] == "ok" and e["lib"]["kind"] in ("Table2D", "Seq1D") and e["table"]["cells"]
        if mode == "rank" and ok_tab and any(c["rank"] >= 1 for c in e["lib"]["cells"]):
            [c for c in e["lib"]["cells"] if c["rank"] >= 1][0]["rank"] += 1
        elif mode == "col" and ok_tab and len(e["table"]["cols"]) > 2 and e["lib"]["kind"] == "Table2D":
            e["table"]["cols"][0], e["table"]["cols"][1] = e["table"]["cols"][1], e["table"]["cols"][0]
            if not any(c["c"] in (1, 2) for c in e["table"]["cells"]):
                continue
        elif mode == "exit" and e["exit"] == "nonzero":
            e["exit"] = "zero"
        elif mode == "errtable" and e["exit"] == "nonzero" and e["out"] == "none":
            e["out"] = "table2d"
        elif mode == "tors" and ok_tab and any(c["tors"] for c in e["lib"]["cells"]):
            c = [c for c in e["lib"]["cells"] if c["tors"]][0]
            c["tors"] = c["tors"] + [c["tors"][0]]
        elif mode == "ring" and e["lib"]["res"] == "ok" and e["lib"]["ring"]["base"] == "F2":
            e["lib"]["ring"]["base"] = "F3"
        elif mode == "sym" and ok_tab:
            tok = e["table"]["cells"][0]["tok"]
            [t for t in tok if t["k"] == "sym"][0]["s"] = "Q7"
        elif mode == "drop" and ok_tab and len(e["table"]["cells"]) >= 2:
            e["table"]["cells"].pop()
            e["table"]["zeros"] += 1
        else:
            continue
        out[k] = json.dumps(e, separators=(",", ":"), ensure_ascii=True)
        return out, k + 1
    return None


def binding_selftest(ctx, trace, modes):
    """The binding is real: a single corrupted field of a freshly recorded trace must be rejected at that very event."""
    lines = open(trace).read().splitlines()
    res = []
    for m in modes:
        c = corrupt(lines, m)
        if c is None:
            continue
        new, at = c
        p = ctx.path("corrupt_%s.ndjson" % m)
        open(p, "w").write("\n".join(new) + "\n")
        r = ctx.tlc_trace("Trace_Cli", "Trace_Cli.cfg", p, timeout=3000, tag="corrupt_" + m)
        if r["accepted"] or r["at"] != at:
            raise vlib.ToolError("binding self-test: trace with corrupted field '%s' at event %d was %s" % (m, at, "accepted" if r["accepted"] else "rejected at %s" % r["at"]))
        res.append({"corruption": m, "event": at, "rejected_at": r["at"]})
        try:
            os.remove(p)
        except OSError:
            pass
    ctx.cov["binding_selftest"] = res
    ctx.log("binding self-test: %d corrupted traces, all rejected at the corrupted event" % len(res))


# ---------------------------------------------------------------------------------------------------------------------
# Extension: the sub-commands khi and ckhi (spec/sys/CliKhI.tla, CliKhIEv.tla; harness/src/c20i.rs)
EXT_ACTIONS = ["DoIErr", "DoITable", "DoIInternal", "DoIMirrorRun"]
EXT_CORRUPTIONS = ["rank", "errtable", "drop", "class", "ssi", "mirrorpair", "gens", "code", "kind"]


def fl_str(fl):
    return "".join(k for k in "gasd" if fl.get(k)) + ("" if fl.get("f") == "unicode" else ":f=%s" % fl.get("f"))


def ext_point_key(e):
    return "%s:%s:c=%s%s%s:%s:%s" % (e["cmd"], e["ctype"], cv_str(e["cv"]), ":m" if e["mirror"] else "", ":r" if e["reduced"] else "", fl_str(e["fl"]), e["ic"])


def ext_corrupt(lines, mode):
    """One changed field of one recorded khi/ckhi event; returns (new lines, line no) or None."""
    out = list(lines)
    evs = [json.loads(l) for l in lines]
    for k in range(len(lines) // 4, len(lines)):
        e = copy.deepcopy(evs[k])
        ok_tab = e["lib"]["res"] == "ok" and e["exit"] == "zero" and e["table"]["cells"]
        exact = ok_tab and not (e["lib"]["kind"] == "GenTable" and e["stdout"].count("\n") < 3)
        if mode == "rank" and ok_tab and e["lib"]["kind"] != "GenTable" and any(c["rank"] >= 1 for c in e["lib"]["cells"]):
            [c for c in e["lib"]["cells"] if c["rank"] >= 1][0]["rank"] += 1
        elif mode == "errtable" and e["exit"] == "nonzero" and e["out"] == "none":
            e["out"] = "table2d"
        elif mode == "drop" and ok_tab and e["lib"]["kind"] != "GenTable" and len(e["table"]["cells"]) >= 2:
            e["table"]["cells"].pop()
            e["table"]["zeros"] += 1
        elif mode == "class" and ok_tab and e["ic"] == "sympd":
            e["ic"] = "asympd"                      # the harness claims a class the code does not have
        elif mode == "ssi" and ok_tab and len(e["lib"]["pair"]) == 2 and e["extra"]["ssi"]:
            e["extra"]["ssi"][-1] += 2              # a printed s value that is not the library's
        elif mode == "mirrorpair" and ok_tab and len(e["lib"]["pair"]) == 2 and any(
                x["input"] == e["input"] and x["mirror"] != e["mirror"] and x["reduced"] == e["reduced"] and x["lib"]["ring"] == e["lib"]["ring"] and len(x["lib"].get("pair", [])) == 2
                for x in evs[:k]):
            e["lib"]["pair"] = [v + 2 for v in e["lib"]["pair"]]      # consistent with its own output, but no longer (-s1,-s0) of the mirror image
            e["extra"]["ssi"] = [v + 2 for v in e["extra"]["ssi"]]
        elif mode == "gens" and ok_tab and e["fl"]["g"]:
            e["extra"]["gens"] += 1
        elif mode == "code" and ok_tab and e["inp"]["kind"] == "name":
            e["lib"]["code"][0], e["lib"]["code"][1] = e["lib"]["code"][1], e["lib"]["code"][0]     # the library's table entry is not the specification's
        elif mode == "kind" and ok_tab and e["lib"]["kind"] == "Seq1D":
            e["lib"]["kind"] = "Table2D"
        else:
            continue
        out[k] = json.dumps(e, separators=(",", ":"), ensure_ascii=True)
        return out, k + 1
    return None


def ext_selftest(ctx, trace, modes, gen_path, tab_path, work):
    """The binding of the extension is real: a corrupted field of a recorded event is rejected at that event by
    Trace_CliKhI, and a corrupted expected value of the TLC-computed cone table is reported by the replay."""
    lines = open(trace).read().splitlines()
    res = []
    saved = (ctx.cov["states"], ctx.cov["transitions"])
    for m in modes:
        c = ext_corrupt(lines, m)
        if c is None:
            res.append({"corruption": m, "skipped": "no event of that shape"})
            continue
        new, at = c
        p = ctx.path("xcorrupt_%s.ndjson" % m)
        open(p, "w").write("\n".join(new[:at]) + "\n")
        r = ctx.tlc_trace("Trace_CliKhI", "Trace_CliKhI.cfg", p, timeout=3000, tag="xcorrupt_" + m)
        if r["accepted"] or r["at"] != at:
            raise vlib.ToolError("binding self-test (khi/ckhi): trace with corrupted field '%s' at event %d was %s" % (m, at, "accepted" if r["accepted"] else "rejected at %s" % r["at"]))
        res.append({"corruption": m, "event": at, "rejected_at": r["at"]})
        try:
            os.remove(p)
        except OSError:
            pass
    # spec -> impl: one rank of the table TLC computed from the definition is changed; the replay must report it
    tabs = [json.loads(l) for l in open(tab_path)]
    t0 = next(t for t in tabs if t["name"] == "3_1")
    row = next(r for r in t0["tab"] if r["f"] == "khibi" and not r["red"])
    row["ranks"][0][2] += 1
    bad_tab = ctx.path("xcorrupt_tables.ndjson")
    open(bad_tab, "w").write("\n".join(json.dumps(t) for t in tabs) + "\n")
    few = ctx.path("xcorrupt_points.ndjson")
    pts = [l for l in open(gen_path) if '"cmd":"khi"' in l and '"ctype":"F2"' in l and '"ic":"sinv"' in l and '"class":"Table2D"' in l]
    open(few, "w").write("".join(pts))
    summ, mism, _ = ctx.yv("c20i", "replay", "--tier", ctx.tier, "--in", few, "--tables", bad_tab, "--out", ctx.path("xcorrupt_trace.ndjson"), "--ykh", YKH, "--work", work, timeout=1200)
    hits = [m for m in mism if "contradicts the definition" in m["what"]]
    if not hits:
        raise vlib.ToolError("binding self-test (khi/ckhi): a corrupted rank of the TLC-computed cone table was not noticed by the replay (%d points)" % len(pts))
    res.append({"corruption": "one bigraded rank of the TLC-computed table of 3_1 +1", "points_replayed": len(pts), "mismatches": len(hits)})
    ctx.cov["states"], ctx.cov["transitions"] = saved
    ctx.log("binding self-test (khi/ckhi): %d corruptions, all noticed" % len([r for r in res if "skipped" not in r]))
    return res


def extension_khi(ctx, work):
    """khi / ckhi: MC of the extended argument-space machine (action census), A (product printed by TLC + cone tables
    computed by TLC, replayed into the binary), B (random instances validated by Trace_CliKhI). Results go to
    coverage.extension_khi_ckhi; disagreements become violations keyed `cli-khi:<point>`."""
    T = ctx.thorough
    ext = {}
    mc_err = []

    def mc():
        try:
            cfg = "MC_CliKhI.thorough.cfg" if T else "MC_CliKhI.cfg"
            gen, dist, acts = ctx.tlc_mc("MC_CliKhI", cfg, workers=4, must_cover=EXT_ACTIONS, timeout=2400)
            ext["mc"] = {"module": "MC_CliKhI", "cfg": cfg, "distinct_states": dist, "states_generated": gen, "action_census": {a: acts.get(a, [0, 0])[1] for a in EXT_ACTIONS}}
        except Exception as ex:
            mc_err.append(ex)
    th = threading.Thread(target=mc)
    th.start()
    try:
        path, objs = ctx.tlc_gen("Gen_CliKhI", "Gen_CliKhI.thorough.cfg" if T else "Gen_CliKhI.quick.cfg", workers=3)
        tab_path, tabs = ctx.tlc_gen("Gen_KhICone", "Gen_KhICone.clit.cfg" if T else "Gen_KhICone.cli.cfg", workers=3, timeout=2400, out_name="gen_cone_tables.ndjson")
        trace_a = ctx.path("xtrace_a.ndjson")
        summ, mism, _ = ctx.yv("c20i", "replay", "--tier", ctx.tier, "--in", path, "--tables", tab_path, "--out", trace_a, "--ykh", YKH, "--work", work,
                               "--per", 3 if T else 1, timeout=3000)
        rp = summ["replay"]
        for m in mism[:200]:
            ctx.violation("cli-khi:" + m["key"], "`ykh %s`: %s" % (" ".join(m["argv"]), m["what"]), dict(m, ext=True))
        _, rej_a = validate(ctx, trace_a, "khi/ckhi product replay", "xtrace_a", module="Trace_CliKhI", keyf=ext_point_key, spec="CliKhI.tla", prefix="cli-khi:", ext=True)
        ext["spec_to_impl"] = dict(rp, events_validated_by_Trace_CliKhI=rp["runs"], events_rejected=rej_a)
        trace_b = ctx.path("xtrace_b.ndjson")
        summ, mism_b, _ = ctx.yv("c20i", "record", "--seed", ctx.seed, "--tier", ctx.tier, "--in", path, "--tables", tab_path, "--out", trace_b, "--ykh", YKH, "--work", work, timeout=3000)
        rec = summ["record"]
        for m in mism_b[:200]:
            ctx.violation("cli-khi:" + m["key"], "`ykh %s`: %s" % (" ".join(m["argv"]), m["what"]), dict(m, ext=True))
        _, rej_b = validate(ctx, trace_b, "khi/ckhi random instances", "xtrace_b", module="Trace_CliKhI", keyf=ext_point_key, spec="CliKhI.tla", prefix="cli-khi:", ext=True)
        ext["impl_to_spec"] = dict(rec, events_rejected=rej_b)
        ctx.cov["evaluations"] += rp["runs"] + rec["events"]
        ctx.cov["distinct_nontrivial"] += rp["distinct_tables"] + rec["distinct_tables"]
        if rej_a == 0 and not mism:
            ext["binding_selftest"] = ext_selftest(ctx, trace_a, EXT_CORRUPTIONS if T else ["rank", "errtable", "class", "mirrorpair"], path, tab_path, work)
    finally:
        th.join()
    if mc_err:
        raise mc_err[0]
    ext["points_in_product"] = len(objs)
    ext["outcome_classes"] = {c: sum(1 for o in objs if o["exp"]["class"] == c) for c in ("Error", "Table2D", "Seq1D", "GenTable", "Tex")}
    ext["cone_tables_from_tlc"] = [{"name": t["name"], "mirror": all(c["t"] == "Xm" for c in t["d"]), "tables": len(t["tab"])} for t in tabs]
    ext["rule"] = ("MC_CliKhI: every point of {khi,ckhi} x -t {Z,Q,F2,F3,Gauss,Eisen,no type} x -c values x -m x -r x all 16 combinations of -g -a -s -d x -f {unicode,tex,no format} x concrete LINK arguments "
                   "(table names, names outside the table, garbage, a file, PD codes whose class PDClass computes) with every admissible observable; second invocation with -m toggled for the pair relation; "
                   "theorems of the table (characteristic 2 only, -m irrelevant, khi within ckhi, flags monotone, bad input is an error, ...) as ASSUMEs; action census via TLC coverage. "
                   "A: one run of the freshly built binary per point printed by Gen_CliKhI; stdout (unicode or TeX table + sections) lexed and compared with a direct library call "
                   "(InvLink::load / sinv_knot_from_code, KhIComplex::new, homology / into_bigraded / gen_grid, ssi_invariants) Rust-side and by Trace_CliKhI, and with the tables TLC computed from the definition "
                   "(cone of 1+tau, KhICone.tla) for the small table diagrams: exactly over F2, by universal coefficients at x=0,1 over F2[H], F2[T], as a lower bound for the generators of ckhi. "
                   "B: seeded random instances (all table names, re-listed / re-numbered / shifted codes, catalogue codes, option spellings), validated by Trace_CliKhI only.")
    ext["assumptions"] = [
        "unicode and TeX format; --log is not exercised (it writes to stdout); the text of the -g / -a / -d sections is not compared, only which sections appear and how many entries they have "
        "(-g: one list per degree with a non-zero printed group; -a: one entry per canonical cycle of the library's complex; -s: one value per canonical cycle, equal to ssi_invariants for knots)",
        "TeX cells are read back through a fixed transliteration into the notation of the unicode cells (harness), then compared like those",
        "a LINK argument is a name of the built-in table or a PD code the loader accepts (labels 1..2n, every label twice, no crossing listed twice, the involution of the labels carries crossings onto crossings); "
        "everything else - including names of the ordinary catalogue and files - must be an error result; PD-shaped JSON with a label not occurring exactly twice must be an error result",
        "for ckhi with (h,t) not homogeneous the printed complex is not determined by the parameters: well-formedness, ring and Euler characteristic only (as for ckh in the main part)",
        "a failure of the library itself (panic in the direct call, e.g. a symmetric-looking code that is no diagram) is an internal failure: the spec then demands an error result",
        "expected tables from the definition are available for the table codes TLC can evaluate in the time budget (3_1, 4_1 and mirror images; thorough: up to 6 crossings) and any re-listing of their crossings",
    ]
    lines = open(trace_a).read().splitlines()
    pick = [json.loads(l) for l in lines if '"pair":[' in l and '"pair":[]' not in l and '"ok"' in l][:1]
    ext["sample"] = [slim(e) for e in pick]
    return ext


def run(ctx):
    work = ctx.path("inputs")
    # MC (the whole option product + theorems of the table + grammar round trip) runs while the binary is being exercised
    mc_err = []

    def mc():
        try:
            ctx.tlc_mc("MC_Cli", "MC_Cli.thorough.cfg" if ctx.thorough else "MC_Cli.cfg", workers=6, must_cover=MC_ACTIONS, timeout=1500)
        except Exception as ex:            # re-raised in the main thread
            mc_err.append(ex)
    th = threading.Thread(target=mc)
    th.start()
    ext_res, ext_err, ext_th = [], [], None

    def ext_run():
        try:
            ext_res.append(extension_khi(ctx, ctx.path("inputs_khi")))
        except Exception as ex:
            ext_err.append(ex)
    try:
        # A: TLC prints the product with the demanded outcome and library call; the harness runs the binary at every point
        path, objs = ctx.tlc_gen("Gen_Cli", "Gen_Cli.thorough.cfg" if ctx.thorough else "Gen_Cli.quick.cfg", workers=4)
        build_ykh(ctx)
        # extension (khi, ckhi): runs next to the main part once the binary exists
        ext_th = threading.Thread(target=ext_run)
        ext_th.start()
        trace_a = ctx.path("trace_a.ndjson")
        summ, mism, _ = ctx.yv("c20", "replay", "--tier", ctx.tier, "--in", path, "--out", trace_a, "--ykh", YKH, "--work", work,
                               "--per", 3 if ctx.thorough else 1, timeout=3000)
        rp = summ["replay"]
        for m in mism[:200]:
            ctx.violation("cli:" + m["key"], "`ykh %s`: %s" % (" ".join(m["argv"]), m["what"]), m)
        ra, rej_a = validate(ctx, trace_a, "product replay", "trace_a")
        ctx.cov["conformance"].append({"direction": "spec->impl", **rp, "events_validated_by_Trace_Cli": rp["runs"], "events_rejected": rej_a})
        ctx.cov["evaluations"] += rp["runs"]
        ctx.cov["distinct_nontrivial"] += rp["distinct_tables"]
        # B: seeded random instances (other integers / spellings / links / PD relabellings / argv spellings), validated by TLC only
        trace_b = ctx.path("trace_b.ndjson")
        summ, mism_b, _ = ctx.yv("c20", "record", "--seed", ctx.seed, "--tier", ctx.tier, "--in", path, "--out", trace_b, "--ykh", YKH, "--work", work, timeout=3000)
        rec = summ["record"]
        for m in mism_b[:200]:
            ctx.violation("cli:" + m["key"], "`ykh %s`: %s" % (" ".join(m["argv"]), m["what"]), m)
        rb, rej_b = validate(ctx, trace_b, "random instances", "trace_b")
        ctx.cov["conformance"].append({"direction": "impl->spec", **rec, "events_rejected": rej_b})
        ctx.cov["evaluations"] += rec["events"]
        ctx.cov["distinct_nontrivial"] += rec["distinct_tables"]
        if rej_a == 0:
            binding_selftest(ctx, trace_a, CORRUPTIONS if ctx.thorough else ["rank", "errtable", "drop"])
    finally:
        th.join()
        if ext_th is not None:
            ext_th.join()
    if mc_err:
        raise mc_err[0]
    if ext_err:
        raise ext_err[0]
    ctx.cov["extension_khi_ckhi"] = ext_res[0]
    ctx.cov["rule"] = ("MC: every point of {kh,ckh} x {Z,Q,F2,F3} x (all -c token sequences of length<=2 over ints/non-canonical 0/rationals/H/T/junk, + triples) x -m x -r x 10 input classes "
                       "with every admissible observable; theorems of the decision table and round trip of the cell grammar as ASSUMEs. "
                       "A: one run of the freshly built binary per product point printed by Gen_Cli (thorough: 3 inputs per table point), stdout lexed and compared with a direct library call "
                       "(KhHomology / into_bigraded / KhComplex::gen_grid on the ring and (h,t) the spec derives), Rust-side and by Trace_Cli. "
                       "B: seeded random instances. evaluations = runs of the binary; distinct_nontrivial = distinct (kind, ring, printed table) triples that were compared with the library.")
    ctx.cov["points_in_product"] = len(objs)
    ctx.cov["outcome_classes"] = {c: sum(1 for o in objs if o["exp"]["class"] == c) for c in ("Error", "Table2D", "Seq1D", "GenTable")}
    ctx.assumptions += [
        "main part (kh, ckh): only the default unicode format and the options -t -c -m -r are exercised; the khi/ckhi commands with their options -g -a -s -d -f are the subject of the extension "
        "(coverage.extension_khi_ckhi, which lists its own assumptions)",
        "PD-shaped JSON in which every label occurs exactly twice is taken to be a diagram (validity of such codes is C18's subject); codes with an odd label count must be an error result",
        "integer coefficient values are kept within |n| <= 12 and diagrams within 10 crossings (machine-integer envelope of the i64 build)",
        "ckh prints the generators of a complex simplified by Gaussian elimination, which is not determined by the parameters (it differs between runs over Z and for inhomogeneous (h,t)); "
        "there only well-formedness, the ring and the Euler characteristic (per q-degree over Z with homogeneous (h,t)) are compared; over fields with homogeneous (h,t) and for all of kh the cells are compared exactly",
        "the lexer of table cells (Rust) is trusted; the cell grammar, the position rule and the comparison are in Cli.tla",
        "a failure of the library itself on the parameters of a table point (panic in the direct call) is an internal failure: the spec then demands an error result",
    ]
    lines = open(trace_a).read().splitlines()
    pick = [json.loads(l) for l in lines if '"Table2D"' in l and '"ok"' in l][:1] + [json.loads(l) for l in lines if '"internal"' in l][:1]
    ctx.add_samples([slim(e) for e in pick], limit=2)


def replay_ext(ctx, path, rp):
    """A stored khi/ckhi violation: the same argv is run again on the current tree and validated by Trace_CliKhI (and Rust-side
    when the point printed by TLC is stored)."""
    argv = rp.get("argv")
    rc, out = vlib.sh([YKH] + argv, timeout=120, env={"RUST_BACKTRACE": "0"})
    print("$ ykh %s\n%s\n(exit %d)" % (" ".join(repr(a) for a in argv), out, rc))
    point = rp.get("point")
    if not point:
        ev = rp["event"]
        point = {k: ev[k] for k in ("cmd", "ctype", "cv", "mirror", "reduced", "fl", "ic")}
        point.update({"exp": {"class": "Error", "why": "?"}, "mutated": True, "force_lib": True, "supported": True, "parsed": True,
                      "ring": ev["lib"]["ring"], "h": ev["lib"]["h"], "t": ev["lib"]["t"], "kind": ev["lib"]["kind"], "mode": "exact"})
    point = dict(point)
    point["argv"] = argv
    one = ctx.path("xone.ndjson")
    open(one, "w").write(json.dumps(point) + "\n")
    tr = ctx.path("xone_trace.ndjson")
    tab_path, _ = ctx.tlc_gen("Gen_KhICone", "Gen_KhICone.cli.cfg", workers=3, timeout=1200, out_name="gen_cone_tables.ndjson")
    summ, mism, _ = ctx.yv("c20i", "replay", "--in", one, "--tables", tab_path, "--out", tr, "--ykh", YKH, "--work", ctx.path("inputs_khi"), "--force-input", rp.get("input", ""))
    r = ctx.tlc_trace("Trace_CliKhI", "Trace_CliKhI.cfg", tr, tag="xreplay_one")
    for m in mism:
        print("still differs:", m["what"])
    if mism or not r["accepted"]:
        print("VIOLATION property=%s replay=%s" % (ctx.pid, path))
        return 1
    print("the stored invocation now conforms to CliKhI.tla")
    return 0


def replay(ctx, path):
    """bin/check C20 --replay <file>: re-runs the stored invocation on the current tree; exit 1 if it still violates."""
    obj = json.load(open(path))
    print(obj.get("what", ""))
    rp = obj.get("replay", {})
    build_ykh(ctx)
    ctx.build_harness()
    if rp.get("ext"):
        return replay_ext(ctx, path, rp)
    argv = rp.get("argv")
    if argv:
        rc, out = vlib.sh([YKH] + argv, timeout=120, env={"RUST_BACKTRACE": "0"})
        print("$ ykh %s\n%s\n(exit %d)" % (" ".join(repr(a) for a in argv), out, rc))
    point = rp.get("point") or (rp.get("event") and None)
    if not point:
        ev = rp.get("event")
        if not ev:
            return 0
        # a trace rejection: validate the re-run of the same argv
        point = {k: ev[k] for k in ("cmd", "ctype", "cv", "mirror", "reduced", "ic")}
        point.update({"exp": {"class": "Error", "why": "?"}, "mutated": True, "force_lib": True, "supported": True, "parsed": True,
                      "ring": ev["lib"]["ring"], "h": ev["lib"]["h"], "t": ev["lib"]["t"], "mode": "exact"})
    point = dict(point)
    point["argv"] = argv
    one = ctx.path("one.ndjson")
    open(one, "w").write(json.dumps(point) + "\n")
    tr = ctx.path("one_trace.ndjson")
    summ, mism, _ = ctx.yv("c20", "replay", "--in", one, "--out", tr, "--ykh", YKH, "--work", ctx.path("inputs"), "--force-input", rp.get("input", ""))
    r = ctx.tlc_trace("Trace_Cli", "Trace_Cli.cfg", tr, tag="replay_one")
    for m in mism:
        print("still differs:", m["what"])
    if mism or not r["accepted"]:
        print("VIOLATION property=%s replay=%s" % (ctx.pid, path))
        return 1
    print("the stored invocation now conforms to Cli.tla")
    return 0
