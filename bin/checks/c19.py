"""C19 — the involutive Khovanov complex is the mapping cone of 1 + tau and respects symmetry; the pair of involutive
s-type invariants obeys its relations."""
import copy, hashlib, json, os, re
from concurrent.futures import ThreadPoolExecutor
import vlib
from checks.c18 import split_trace

MC_ACTIONS = ["StartLoad", "MvReorder", "MvMirror", "MvRotate"]
SSI_ACTIONS = ["Observe", "Reorder", "Mirror", "NewKnot"]
HARNESS_ENV = {"RAYON_NUM_THREADS": "1"}      # the library's rayon pool only costs time on these small complexes; parallelism is across processes


def census(ctx, cfg, actions):
    """Action census of an MC run (the models print <<"ACT", name>> when an action is taken; -coverage is unusable on evaluation-heavy models)."""
    log = open(ctx.path("tlc_%s.log" % os.path.splitext(cfg)[0])).read()
    cnt = {a: len(re.findall(r'<<"ACT", "%s">>' % a, log)) for a in actions}
    never = [a for a, c in cnt.items() if c == 0]
    if never:
        raise vlib.ToolError("vacuous model %s: actions never taken: %s" % (cfg, never))
    for run in reversed(ctx.cov["mc_runs"]):
        if run["cfg"] == cfg:
            run["actions"] = cnt
            break
    m = re.search(r"INVARIANT-PART-FAILED", log)
    if m:
        raise vlib.ToolError("model %s: a part of the invariant failed (see log)" % cfg)
    return cnt


def case_ident(c):
    mir = all(x["t"] == "Xm" for x in c["d"])
    return "%s%s%s" % (c.get("name"), "/mirror" if mir else "", "/rot" if c.get("rot") else "")


def shard_replay(ctx, path, nshards, perms, tag):
    lines = open(path).read().splitlines()
    shards = [lines[i::nshards] for i in range(nshards)]
    def one(i):
        if not shards[i]:
            return {"cases": 0, "checks": 0, "mismatches": 0, "panics": 0}, []
        p = ctx.path("%s_shard%d.ndjson" % (tag, i))
        open(p, "w").write("\n".join(shards[i]) + "\n")
        summ, mism, _ = ctx.yv("c19", "replay", "--in", p, "--out", ctx.path("%s_shard%d_out.ndjson" % (tag, i)), "--perms", perms,
                               "--seed", ctx.seed + i, env=HARNESS_ENV, timeout=3000)
        return summ["replay"], mism
    with ThreadPoolExecutor(max_workers=nshards) as ex:
        res = list(ex.map(one, range(nshards)))
    tot = {"cases": 0, "checks": 0, "mismatches": 0, "panics": 0}
    mism = []
    for s, m in res:
        for k in tot:
            tot[k] += s.get(k, 0)
        mism += m
    tot["listings_per_case"] = int(perms) + 1
    return tot, mism


def verdict(ctx, r, trace, what):
    """The witness is the whole history (from its `reset`) up to the rejected event; the key names the knot, the operation and its configuration."""
    if r["accepted"]:
        ctx.cov["traces_validated_against_impl"] += 1
        return True
    lines = open(trace).read().splitlines()
    at = r["at"] or len(lines)
    starts = [i for i in range(at) if lines[i].startswith('{"d":[],"op":"reset"')]
    start = starts[-1] if starts else 0
    ev = r["event"] if isinstance(r["event"], dict) else {}
    hist = [json.loads(l) for l in lines[start:at]]
    root = next((e for e in hist if e.get("op") == "iload"), {})
    moves = [e["op"] for e in hist if e.get("op") in ("ireorder", "imirror", "irotate")]
    cfgs = {k: ev.get(k) for k in ("h", "t", "red", "ring", "variant", "route") if k in ev}
    ident = json.dumps([root.get("name"), root.get("mir"), [m for m in moves if m != "ireorder"], ev.get("op"), cfgs], sort_keys=True)
    key = "trace:%s:%s:%s" % (ev.get("op") or r["invariant"], root.get("name"), hashlib.sha1(ident.encode()).hexdigest()[:10])
    short = {k: v for k, v in ev.items() if k not in ("d", "cx", "hom")}
    if "hom" in ev:
        short["hom"] = ev["hom"]
    if "cx" in ev:
        short["dims"] = ev["cx"].get("dims")
    ctx.violation(key, "%s: event %s (%s %s) of the history on %s (mirror=%s, moves %s) is not a step of KhICone.tla / SSIRelations.tla (invariant=%s): %s" % (
        what, at, ev.get("op"), json.dumps(cfgs), root.get("name"), root.get("mir"), moves, r["invariant"], json.dumps(short)[:700]),
        {"trace_file": trace, "rejected_at_line": at, "invariant": r["invariant"], "last_events": lines[start:at], "tlc_log": r["log"]})
    return False


def selftest_trace(ctx, cfg, trace, mutate, name):
    """Binding self-test: corrupt one recorded field; TLC must reject exactly there."""
    lines = [json.loads(l) for l in open(trace)]
    hit = None
    for i, e in enumerate(lines):
        e2 = mutate(copy.deepcopy(e), lines[:i])
        if e2 is not None:
            hit = (i, e2)
            break
    if hit is None:
        return {"corruption": name, "skipped": "no event of that shape in the first chunk"}
    i, e2 = hit
    p = ctx.path("selftest_%s.ndjson" % name)
    with open(p, "w") as f:
        for e in lines[:i] + [e2]:
            f.write(json.dumps(e, separators=(",", ":")) + "\n")
    r = ctx.tlc_trace("Trace_KhICone", cfg, p, timeout=1500, tag="selftest_" + name)
    if r["accepted"] or r["at"] != i + 1:
        raise vlib.ToolError("binding self-test %s failed: corrupted event %d was %s" % (name, i + 1, "accepted" if r["accepted"] else "rejected elsewhere (%s)" % r["at"]))
    return {"corruption": name, "event": i + 1, "rejected": True}


def run(ctx):
    T = ctx.thorough
    ex = ThreadPoolExecutor(max_workers=3)
    # ---- A (started first, runs next to the model checks): TLC evaluates the definition on the table diagrams
    gen_cfg = "Gen_KhICone.thorough.cfg" if T else "Gen_KhICone.quick.cfg"
    gen_f = ex.submit(ctx.tlc_gen, "Gen_KhICone", gen_cfg, 3, 3000)
    # ---- B record (cheap, independent)
    trace = ctx.path("trace.ndjson")
    rec_f = ex.submit(ctx.yv, "c19", "record", "--seed", ctx.seed, "--tier", ctx.tier, "--out", trace, env=HARNESS_ENV, timeout=3000)

    # ---- MC: the definition is sound and the machine's predictions are the definition, on the small table members
    mc_cfg = "MC_KhICone.thorough.cfg" if T else "MC_KhICone.cfg"
    ctx.tlc_mc("MC_KhICone", mc_cfg, workers=3, timeout=2400, coverage=False)
    census(ctx, mc_cfg, MC_ACTIONS)
    ctx.tlc_mc("MC_SSIRelations", "MC_SSIRelations.cfg", workers=1, timeout=600, coverage=False)
    census(ctx, "MC_SSIRelations.cfg", SSI_ACTIONS)
    path, objs = gen_f.result()
    if T:
        # the 8- and 9-crossing table codes (as listed, no mirror / second numbering), next to:
        big_f = ex.submit(ctx.tlc_gen, "Gen_KhICone", "Gen_KhICone.big.cfg", 3, 3000)
        # tau is a chain map / d.d = 0 on cube and cone / q-homogeneity / Euler characteristic = Jones, on every table diagram with <= 7 crossings
        ctx.tlc_mc("MC_KhICone", "MC_KhICone.table.cfg", workers=3, timeout=3000, coverage=False)
        census(ctx, "MC_KhICone.table.cfg", ["StartLoad"])
        path2, objs2 = big_f.result()
        objs = objs + objs2
        open(path, "a").write(open(path2).read())

    # ---- A: replay
    rp, mism = shard_replay(ctx, path, 6, 4 if T else 2, "replay")
    ctx.cov["conformance"].append({"direction": "spec->impl", **rp})
    ctx.cov["evaluations"] += rp["checks"]
    ctx.cov["distinct_nontrivial"] += sum(len(o["tab"]) for o in objs)
    ctx.cov["gen_diagrams"] = len(objs)
    ctx.cov["gen_max_crossings"] = max(len(o["d"]) for o in objs)
    s0 = next(o for o in objs if o["name"] == "4_1" and not o["rot"])
    ctx.add_samples([{"name": s0["name"], "d": s0["d"], "tab": [r for r in s0["tab"] if r["h"] == 0 and r["t"] == 0 and not r["red"]]}])
    seen = set()
    for m in mism:
        row = m.get("row") or {}
        ident = "%s:%s:h%s:t%s:%s:%s" % (m["what"], case_ident(m), row.get("h"), row.get("t"), "red" if row.get("red") else "unred", m.get("variant"))
        if ident in seen or len(seen) >= 60:
            continue
        seen.add(ident)
        if m["what"] == "table":
            ctx.violation("replay:" + ident, "InvLink::load(%s) returns the code %s, spec/sys/KhITable.tla (the table this property was built against) has %s" % (
                m["name"], json.dumps(m.get("got")), json.dumps([c["e"] for c in m["d"]])), {"name": m["name"], "got": m.get("got"), "want": m["d"]})
            continue
        ctx.violation("replay:" + ident,
                      "%s of %s, (h,t)=(%s,%s), %s, builder variant '%s', crossings listed as %s: library gives %s, the mapping cone of 1+tau (KhICone.tla) gives %s" % (
                          {"khi": "involutive homology ranks", "kh": "Khovanov ranks by the symmetric/ordinary builder", "khibi": "bigraded involutive ranks",
                           "load": "loader"}.get(m["what"], m["what"]),
                          case_ident(m), row.get("h"), row.get("t"), "reduced" if row.get("red") else "unreduced", m.get("variant"), m.get("pi"),
                          json.dumps(m.get("got"))[:400], json.dumps(row.get("ranks"))[:400]),
                      {"case": {"kind": "khi", "name": m["name"], "d": m["d"], "rot": m["rot"], "tab": [row] if row else []}, "pi": m.get("pi"), "variant": m.get("variant"), "got": m.get("got")})
    selftests = []
    if not mism:
        bad = copy.deepcopy(next(o for o in objs if len(o["d"]) >= 4))
        bad["tab"] = [r for r in bad["tab"] if r["f"] == "khi" and r["h"] == 0 and r["t"] == 0 and not r["red"]]
        bad["tab"][0]["ranks"][1][1] += 2
        p = ctx.path("selftest_gen.ndjson")
        open(p, "w").write(json.dumps(bad) + "\n")
        _, m2, _ = ctx.yv("c19", "replay", "--in", p, "--out", ctx.path("selftest_gen_out.ndjson"), "--perms", 0, env=HARNESS_ENV)
        if len(m2) != 4 or any(x["what"] != "khi" for x in m2):       # one per builder variant on the identity listing
            raise vlib.ToolError("binding self-test (spec->impl) failed: corrupted expected rank gave %d mismatches" % len(m2))
        selftests.append({"corruption": "one expected involutive rank +2 in a generated case", "rejected": True})

    # ---- B: recorded histories validated event by event
    summ, _, _ = rec_f.result()
    rec = summ["record"]
    tcfg = "Trace_KhICone.thorough.cfg" if T else "Trace_KhICone.cfg"
    chunks = split_trace(trace, 150 if T else 100, ctx.work, "trace")
    def one(ic):
        i, (p, n) = ic
        return p, ctx.tlc_trace("Trace_KhICone", tcfg, p, timeout=3000, tag="Trace_KhICone_%02d" % i)
    with ThreadPoolExecutor(max_workers=6) as ex2:
        results = list(ex2.map(one, enumerate(chunks)))
    ok = True
    for p, r in results:
        if r["invariant"] == "DriverOK":
            raise vlib.ToolError("the driver issued a call outside its documented precondition (event %s of %s); harness bug, not a verdict" % (r["at"], p))
        ok = verdict(ctx, r, p, "KhI history") and ok
    ctx.cov["conformance"].append({"direction": "impl->spec", **rec, "chunks": len(chunks), "accepted": ok})
    ctx.cov["evaluations"] += rec["events"]
    if ok:
        ctx.cov["traces_validated_against_impl"] += rec["histories"] - len(chunks)
    if rec["panics"]:
        ctx.log("note: %d calls panicked (each is an event TLC has to explain)" % rec["panics"])

    # binding self-tests for B: on the first chunk (3_1 history: load, observe, re-list, mirror, ...)
    first = chunks[0][0]
    def m_entry(e, before):                 # drop one matrix entry of an involutive complex over F2
        if e["op"] == "khi" and e["res"] == "ok" and e["h"] == 0 and e["t"] == 0 and any(len(m) >= 2 for m in e["cx"]["mats"]):
            k = next(i for i, m in enumerate(e["cx"]["mats"]) if len(m) >= 2)
            del e["cx"]["mats"][k][0]
            return e
    def m_rank(e, before):                  # a rank of the reported homology
        if e["op"] == "khi" and e["res"] == "ok" and e["h"] == 1 and e["variant"] == "new":
            e["hom"][0][0] += 1
            return e
    def m_hpower(e, before):                # an entry H -> 1 in the complex over F2[H]
        if e["op"] == "khih" and e["res"] == "ok":
            for m in e["cx"]["mats"]:
                for x in m:
                    if x[2] == [1]:
                        x[2] = [0]
                        return e
    def m_tors(e, before):                  # a torsion summand of the homology over F2[H] dropped
        if e["op"] == "khih" and e["res"] == "ok" and any(h[1] for h in e["hom"]):
            k = next(i for i, h in enumerate(e["hom"]) if h[1])
            del e["hom"][k][1][0]
            return e
    def m_kh(e, before):                    # the symmetric builder's ordinary homology differs from the ordinary builder's
        if e["op"] == "kh" and e["res"] == "ok" and e["route"] == "ord" and e["h"] == 0 and e["t"] == 0 and not e["red"]:
            e["cx"]["dims"][-1] += 1
            e["hom"][-1][0] += 1
            return e
    def m_ssi_mirror(e, before):            # after mirroring the pair is reported without the sign change
        if e["op"] == "ssi" and e["res"] == "ok" and e["pair"] != [0, 0] and sum(1 for b in before if b["op"] == "imirror") % 2 == 1:
            e["pair"] = [-e["pair"][1], -e["pair"][0]]
            return e
    def m_ssi_reorder(e, before):           # after re-listing the crossings the pair moved by 2
        if e["op"] == "ssi" and e["res"] == "ok" and any(b["op"] == "ireorder" for b in before) and not any(b["op"] == "imirror" for b in before):
            e["pair"] = [e["pair"][0] + 2, e["pair"][1] + 2]
            return e
    def m_bigr(e, before):                  # one bigraded rank moved to another q-degree
        if e["op"] == "khibi" and e["res"] == "ok" and len(e["tab"]) >= 2:
            e["tab"][0][1] += 2
            return e
    tests = [("matrix_entry", m_entry), ("homology_rank", m_rank), ("h_power", m_hpower), ("ssi_mirror", m_ssi_mirror), ("ssi_reorder", m_ssi_reorder)]
    if T:
        tests += [("torsion", m_tors), ("kh_route", m_kh), ("bigraded", m_bigr)]
    if ok:
        saved = (ctx.cov["states"], ctx.cov["transitions"])           # the corrupted traces are not coverage
        with ThreadPoolExecutor(max_workers=5) as ex3:
            selftests += list(ex3.map(lambda nf: selftest_trace(ctx, tcfg, first, nf[1], nf[0]), tests))
        ctx.cov["states"], ctx.cov["transitions"] = saved
    ctx.cov["binding_selftest"] = selftests

    absn = 5 if T else 4
    ctx.cov["rule"] = (
        "MC: on the table diagrams 3_1 and 4_1, their mirror images, every re-listing of the crossings (all permutations for 3 crossings; cyclic shifts and adjacent "
        "transpositions for 4), the second symmetric numbering, histories of <=%d moves: for (h,t) in F2xF2 unreduced and (h,0) reduced the involution is well defined, tau is a chain map, "
        "d.d=0 on cube and cone, the prediction table kept by the moves equals the definition (= independence of the listing order), the definition's own cone (over F2 and over F2[H]) satisfies "
        "the observers' contract, Euler characteristic = Jones (C04), mirror duality, sparse rank = LinAlg!RankP; literature values pinned%s. MC_SSIRelations: every history of observe / re-list / mirror / "
        "new-knot over pairs in -2..2. A: for each of the %d generated diagrams (table codes with <=%d crossings; x mirror x second numbering up to 7 crossings) TLC computes the dimension of the homology of the cone of 1+tau "
        "per degree for 6 configurations, the bigraded refinement and the cube's Khovanov ranks; the library is run on each under %d listings of the crossings and 4 builder variants (+5 routes for ordinary Kh). "
        "B: histories on %d table knots (incl. 9_46, the pair (0,2)): every complex over F2 and F2[H] recorded with all matrices: d.d=0, reported homology = homology of the matrices "
        "(over F2[H]: universal coefficients at H=0,1), specialisations H=0,1 = direct builds, symmetric builder's ordinary complex = ordinary builder's, equality across builder variants and listings, "
        "cone definition itself for <=%d crossings, pairs (s0,s1): s0<=s1, parity, unchanged by re-listing, (-s1,-s0) under mirror, for HPoly and Poly coefficients, reduced and unreduced. "
        "distinct_nontrivial = number of (diagram, configuration, kind) tables computed by TLC from the definition in A.") % (
            2 if T else 1, "; soundness facts and Euler characteristic on every table diagram with <=7 crossings" if T else "", len(objs), ctx.cov["gen_max_crossings"], rp["listings_per_case"], rec["knots"], absn)
    ctx.assumptions += [
        "a symmetric code is: a valid PD code of a knot (C18) with labels 1..2n such that e -> (2n+1-e) mod 2n + 1 is induced by a half turn about an axis in the plane "
        "(every crossing has exactly one image crossing, positions mapped by j -> (k-j) mod 4, k odd); the drivers use the built-in table, the 9_46 code of the library's tests, re-listings and the second symmetric numbering of those; TLC re-checks the condition for every loaded code",
        "tau acts on labellings by carrying the label to the image circle (identity on the Frobenius algebra), as in the library's v1 cube; coefficients F2 with h,t in {0,1} and F2[H] with (h,t)=(H,0)",
        "homology is compared as dimension per homological degree (and per (i,j) for h=t=0); generators are never compared",
        "nothing is claimed across the two symmetric numberings of a diagram (base point on the other axis point) nor between reduced and unreduced pairs",
        "diagrams with more than %d crossings are checked in B through relations only (in A the definition is evaluated up to %d crossings)" % (absn, ctx.cov["gen_max_crossings"]),
        "the library's rayon pool is limited to one thread in the harness processes (the property does not speak about threading)"]
    lines = open(trace).read().splitlines()
    sam = [json.loads(l) for l in lines if '"op":"khih"' in l][:1]
    ctx.add_samples(sam)
    ctx.add_samples([{k: v for k, v in json.loads(l).items() if k != "d"} for l in lines if '"op":"ssi"' in l and '"pair":[0,2]' in l][:1])


def replay(ctx, path):
    """Re-run a saved violation witness."""
    w = json.load(open(path))
    r = w.get("replay", {})
    print(json.dumps({k: w.get(k) for k in ("property", "key", "what", "seed", "tier")}, indent=1))
    if "case" in r:
        p = ctx.path("replay_case.ndjson")
        open(p, "w").write(json.dumps(r["case"]) + "\n")
        summ, mism, out = ctx.yv("c19", "replay", "--in", p, "--out", ctx.path("replay_case_out.ndjson"), "--perms", 3, env=HARNESS_ENV)
        print(out[-3000:])
        return 1 if mism else 0
    if "last_events" in r:
        p = ctx.path("replay_trace.ndjson")
        open(p, "w").write("\n".join(r["last_events"]) + "\n")
        res = ctx.tlc_trace("Trace_KhICone", "Trace_KhICone.thorough.cfg", p, timeout=1800)
        print("accepted" if res["accepted"] else "REJECTED at %s: %s" % (res["at"], json.dumps({k: v for k, v in (res["event"] or {}).items() if k != "d"})[:1500]))
        return 0 if res["accepted"] else 1
    print(json.dumps(r)[:4000])
    return 0
