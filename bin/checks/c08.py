"""C08 — chain reduction is a homotopy equivalence with correct transfer maps."""
import json

def run(ctx):
    # design model: one-unit-pivot elimination steps with explicit formulas, all small complexes, all pivot sequences
    ctx.tlc_mc("MC_ChainRed", "MC_ChainRed.cfg", workers=8, timeout=1500)
    ctx.tlc_mc("MC_LinAlg", "MC_LinAlg.cfg", workers=1, coverage=False, timeout=900, cache=True)
    # A: TLC enumerates every sequence of reducer calls (degree, Rows|Cols, One|AnyUnit|Weight) up to length 2 (thorough 3)
    path, objs = ctx.tlc_gen("Gen_ChainRedSched", "Gen_ChainRedSched.thorough.cfg" if ctx.thorough else "Gen_ChainRedSched.quick.cfg", workers=1)
    trace = ctx.path("trace.ndjson")
    summ, _, _ = ctx.yv("c08", "record", "--seed", ctx.seed, "--tier", ctx.tier, "--in", path, "--out", trace, timeout=3000)
    rec = summ["record"]
    r = ctx.tlc_trace("Trace_ChainRed", "Trace_ChainRed.cfg", trace, timeout=3000)
    ctx.trace_verdict(r, trace, "chain reduction")
    ctx.cov["conformance"].append({"direction": "spec->impl call sequences + impl->spec validation", **rec, "accepted": r["accepted"], "tlc_call_sequences": len(objs)})
    ctx.cov["evaluations"] += rec["events"]
    ctx.cov["distinct_nontrivial"] += rec["reduction_calls"]
    if r["accepted"]:
        ctx.cov["traces_validated_against_impl"] += rec["cases"]
    ctx.cov["rule"] = ("per case a planted cochain complex of length 1..4 (thorough 6) with unit / non-unit / mixed diagonal parts conjugated by unimodular matrices, tracked cycles, over Z, Q, F2, F3, Z[H]; "
                       "a random sequence of reduce_at_spec(i, Rows|Cols, One|AnyUnit|Weight) / reduce_at(i, deep) / reduce_all(shallow, deep) calls on pools of 1, 2, 16 threads; after every call the "
                       "whole reducer state (differentials, forward / backward matrices, tracked vectors) is read through the public accessors and must be a chain complex with the homology of the "
                       "original, chain maps with F B = I, and vectors F v0")
    ctx.assumptions += ["homology is compared as (rank, torsion) over Z, as F_p-dimension over F2/F3, and as rank over the fraction field for Q and Z[H] (by minors)",
                        "which pivots are chosen is unconstrained; the design model covers single unit pivots, the recorded runs whatever the library chose"]
    lines = open(trace).read().splitlines()
    ctx.add_samples([json.loads(l) for l in lines[0:2]])

def replay(ctx, path):
    return ctx.replay_trace(path)
