"""C05 — every Khovanov complex returned is a graded chain complex over its ring, and building with polynomial
parameters (H,T) commutes with specialisation to numbers (h,t)."""
import copy, json, os
from concurrent.futures import ThreadPoolExecutor
import vlib
from checks.c03 import split_links

TRACE_MOD, TRACE_CFG = "Trace_ChainCx", "Trace_ChainCx.cfg"
CLAUSE = {"shape": "the matrices are not composable / not sized by the generators",
          "degree": "the differential does not have degree +1 (generator in the wrong homological degree, d(x) outside C_{i+1}, or d_deg != 1)",
          "samemap": "d_matrix(i) and d(i, generator) describe different maps",
          "dsquare": "d*d != 0",
          "homogeneous": "an entry is not homogeneous of q-degree 0 with deg H = -2, deg T = -4",
          "specialise": "its homology differs from the polynomial complex specialised at this (h,t)",
          "panic": "the library panicked"}


def report(ctx, ev, why, line, context):
    name, ring, red, h, t = ev.get("name"), ev.get("ring"), ev.get("red"), ev.get("h"), ev.get("t")
    rels = []
    for w in (why or [["unexplained", ""]]):
        rel, det = w[0], w[1]
        rels.append(rel + (":" + det if det else ""))
        key = "%s:%s:%s:%s:h=%s,t=%s%s" % (rel, name, ring, "red" if red else "unred", h, t, (":" + det) if det else "")
        what = "KhComplex::<%s>::new(%s, h=%s, t=%s, reduced=%s): %s%s" % (ring, name, h, t, red, CLAUSE.get(rel, rel), (" (polynomial ring %s)" % det) if det else "")
        ctx.violation(key, what, {"name": name, "ring": ring, "red": red, "h": h, "t": t, "clause": rel, "detail": det, "events": context + [line]})
    return rels


def validate_chunk(ctx, path, tag, max_rounds=8):
    """Validate; a rejected complex is reported and dropped, the rest is validated again."""
    rejected, rounds, cur = [], 0, path
    while True:
        rounds += 1
        r = ctx.tlc_trace(TRACE_MOD, TRACE_CFG, cur, timeout=2400, tag="%s_r%d" % (tag, rounds))
        if r["accepted"]:
            return rejected, r["n"]
        lines = open(cur).read().splitlines()
        at = r["at"]
        if r["invariant"] != "DriverOK" and "Invariant DriverOK is violated" in open(r["log"]).read():
            r["invariant"], at = "DriverOK", (at - 1 if at else None)       # vlib read the postcondition line first; the offending event is the one before
        if r["invariant"] == "DriverOK":
            # a numeric complex without a polynomial partner can only follow the removal of rejected polynomial complexes
            if rejected and at is not None:
                cur2 = "%s.r%d" % (path, rounds)
                open(cur2, "w").write("".join(l + "\n" for i, l in enumerate(lines) if i != at - 1))
                cur = cur2
                continue
            raise vlib.ToolError("the driver issued an event outside its precondition (event %s of %s); harness bug, not a verdict" % (at, cur))
        obj = r["event"] if isinstance(r["event"], dict) else {}
        ev, why = obj.get("e", {}), obj.get("why", [])
        if not ev or at is None:
            raise vlib.ToolError("trace validation of %s rejected without a readable event (log %s)" % (cur, r["log"]))
        start = max(i for i in range(at) if '"op":"link"' in lines[i])
        polys = [l for l in lines[start + 1:at - 1] if json.loads(l).get("ring") in ("ZH", "ZT", "ZHT", "QH", "F2H") and json.loads(l).get("red") == ev.get("red")]
        rels = report(ctx, ev, why, lines[at - 1], [lines[start]] + (polys if any(w[0] == "specialise" for w in why) else []))
        rejected.append({"name": ev.get("name"), "ring": ev.get("ring"), "red": ev.get("red"), "h": ev.get("h"), "t": ev.get("t"), "clauses": rels})
        if rounds >= max_rounds:      # verdict is already a violation; do not spend more time on this chunk
            ctx.log("stopped validating %s after %d rejected events (the remaining events of this chunk are not judged)" % (os.path.basename(path), max_rounds))
            return rejected, 0
        cur = "%s.r%d" % (path, rounds)
        open(cur, "w").write("".join(l + "\n" for i, l in enumerate(lines) if i != at - 1))


def selftest(ctx, trace, pick, mutate, name, expect, after=0):
    """Binding self-test: corrupt one recorded field of event `pick`; TLC must reject (at that event, or for `specialise`
    corruptions of a polynomial complex at a later numeric event) with the expected clause."""
    lines = [json.loads(l) for l in open(trace)]
    i = next((k for k, e in enumerate(lines) if e["op"] == "cx" and e["res"] == "ok" and pick(e)), None)
    if i is None:
        raise vlib.ToolError("binding self-test %s: no event to corrupt" % name)
    e2 = mutate(copy.deepcopy(lines[i]))
    start = max(k for k in range(i + 1) if lines[k]["op"] == "link")
    end = next((k for k in range(i + 1, len(lines)) if lines[k]["op"] == "link"), len(lines))
    p = ctx.path("selftest_%s.ndjson" % name)
    with open(p, "w") as f:
        for e in lines[start:i] + [e2] + lines[i + 1:end]:
            f.write(json.dumps(e, separators=(",", ":")) + "\n")
    saved = (ctx.cov["states"], ctx.cov["transitions"])
    r = ctx.tlc_trace(TRACE_MOD, TRACE_CFG, p, timeout=900, tag="selftest_" + name)
    ctx.cov["states"], ctx.cov["transitions"] = saved
    why = [w[0] for w in (r["event"] or {}).get("why", [])] if isinstance(r["event"], dict) else []
    at_ok = r["at"] is not None and (r["at"] == i - start + 1 if not after else r["at"] > i - start + 1)
    if r["accepted"] or not at_ok or expect not in why:
        raise vlib.ToolError("binding self-test %s failed: %s (reasons %s, expected %s)" % (
            name, "accepted" if r["accepted"] else "rejected at %s, corrupted event %s" % (r["at"], i - start + 1), why, expect))
    return {"corruption": name, "link": lines[start]["name"], "rejected_at_event": r["at"], "corrupted_event": i - start + 1, "rejected_for": why}


def run(ctx):
    T = ctx.thorough
    trace = ctx.path("trace.ndjson")

    def do_record():
        return ctx.yv("c05", "record", "--seed", ctx.seed, "--tier", ctx.tier, "--out", trace, timeout=2400)
    def do_mc():
        # the definitional cube of resolutions with symbolic and numeric parameters satisfies the contract; broken rules do not
        ctx.tlc_mc("MC_ChainCx", "MC_ChainCx.thorough.cfg" if T else "MC_ChainCx.cfg", workers=6, timeout=2400, coverage=False)
    with ThreadPoolExecutor(max_workers=2) as ex:
        f_rec, f_mc = ex.submit(do_record), ex.submit(do_mc)
        summ, _, _ = f_rec.result()
        f_mc.result()
    rec = summ["record"]

    chunks = split_links(trace, 450, ctx.work, "trace")
    with ThreadPoolExecutor(max_workers=5) as ex:
        results = list(ex.map(lambda ic: validate_chunk(ctx, ic[1], "Trace_ChainCx_%02d" % ic[0]), enumerate(chunks)))
    rejected = [x for r, _ in results for x in r]
    bad_links = {x["name"] for x in rejected}
    ctx.cov["traces_validated_against_impl"] += rec["links"] - len(bad_links)
    ctx.cov["conformance"].append({"direction": "impl->spec", **rec, "chunks": len(chunks), "rejected_events": rejected[:40], "accepted": not rejected})
    ctx.cov["evaluations"] += rec["complexes"]
    ctx.cov["distinct_nontrivial"] += rec["polynomial_complexes"] + rec["direct_complexes_at_nonzero_points"]
    if rec["panics"]:
        ctx.log("note: %d library calls panicked" % rec["panics"])

    # ---- binding self-test on an accepted chunk
    selftests = []
    good = next((c for c, (r, _) in zip(chunks, results) if not r and os.path.getsize(c) > 200000), None) or next((c for c, (r, _) in zip(chunks, results) if not r), None)
    if good:
        big = lambda e: sum(len(d["e"]) for d in e["c"]["d"]) >= 6
        def first_entry(e):
            k = next(i for i, d in enumerate(e["c"]["d"]) if d["e"])
            return k, e["c"]["d"][k]["e"][0]
        def off_dz(e):          # the corruption concerns d_matrix only: take d(i, .) out of the comparison
            e["c"]["dz"] = [[] for _ in e["c"]["dz"]]
            e["c"]["dzp"] = [False] * len(e["c"]["dzp"])
        def m_exp(e):           # H-exponent of one term raised
            k, en = first_entry(e); off_dz(e)
            en[2][0]["e"][0] += 1
            return e
        def m_qdeg(e):          # q-degree of one generator shifted
            k, en = first_entry(e)
            e["c"]["g"][k][en[1] - 1][1] += 2
            return e
        def m_hdeg(e):          # homological degree of one generator
            k, en = first_entry(e)
            e["c"]["g"][k][en[1] - 1][0] += 1
            return e
        def m_sign(e):          # one polynomial entry negated where d*d has a non-trivial composite through it
            off_dz(e)
            ds = e["c"]["d"]
            for k in range(len(ds) - 1):
                rows_next = {x[1] for x in ds[k + 1]["e"]}
                for en in ds[k]["e"]:
                    if en[0] in rows_next:
                        for tm in en[2]:
                            tm["c"] = -tm["c"]
                        return e
            return e
        def has_composite(e):
            ds = e["c"]["d"]
            return any(en[0] in {x[1] for x in ds[k + 1]["e"]} for k in range(len(ds) - 1) for en in ds[k]["e"])
        def m_val(e):           # one differential of a directly built complex multiplied by 3: still a graded complex, other homology
            k, en = first_entry(e); off_dz(e)
            for x in e["c"]["d"][k]["e"]:
                x[2] *= 3
            return e
        def m_dz(e):            # d(i, generator) differs from d_matrix
            k = next(i for i, d in enumerate(e["c"]["dz"]) if d)
            e["c"]["dz"][k][0][2] = -e["c"]["dz"][k][0][2] if isinstance(e["c"]["dz"][k][0][2], int) else e["c"]["dz"][k][0][2] + 1
            return e
        def m_polysign(e):      # a coefficient of the polynomial complex negated: only specialisation (or d*d) can see it
            k, en = first_entry(e); off_dz(e)
            en[2][0]["c"] = -en[2][0]["c"]
            return e
        tests = [
            ("exponent_of_H_raised", lambda e: e["ring"] == "ZHT" and e["t"] == "T" and big(e), m_exp, "homogeneous", 0),
            ("generator_q_degree_shifted", lambda e: e["ring"] == "ZH" and big(e), m_qdeg, "homogeneous", 0),
            ("entry_negated_ZHT", lambda e: e["ring"] == "ZHT" and e["t"] == "T" and has_composite(e), m_sign, "dsquare", 0),
            ("direct_differential_times_3", lambda e: e["ring"] == "Z" and e["h"] == 2 and e["t"] == 3 and any(d["e"] for d in e["c"]["d"]), m_val, "specialise", 0),
        ] + ([
            ("generator_h_degree_shifted", lambda e: e["ring"] == "ZT" and big(e), m_hdeg, "degree", 0),
            ("d_of_generator_differs", lambda e: e["ring"] == "Z" and any(e["c"]["dz"]), m_dz, "samemap", 0),
        ] if T else [])
        for name, pick, f, exp, after in tests:
            selftests.append(selftest(ctx, good, pick, f, name, exp, after))
    ctx.cov["binding_selftest"] = selftests

    ctx.cov["rule"] = (
        "MC: MC_ChainCx - for the closure of every braid word of length <=%d on <=3 strands the cube of resolutions built from the definition over A = R[X]/(X^2-hX-t) with parameters "
        "(H,T), (H,0), (0,T) in Z[H,T], Z[H], Z[T], Q[H], F2[H] and numbers in Z, Q, F2, F3 (reduced and unreduced, 30 parameter choices) is accepted by the contract of ChainCx.tla "
        "(shape, degree +1, d*d = 0, homogeneity with deg H = -2 and deg T = -4, homology of the numeric cube = homology of every symbolic cube specialised there), "
        "and cubes without edge signs or with h and t exchanged are rejected. "
        "B: for %d links (empty link, unknot, catalogue <=%d crossings, mirrors, T(3,4)%s, split unions) every complex KhComplex::<R>::new returns for R in {i64, Ratio<i64>, FF2, FF<3>, Poly<H,i64>, "
        "Poly<T,i64>, Poly2<H,T,i64>, Poly<H,Ratio<i64>>, Poly<H,FF2>}, reduced and unreduced, is recorded through h_range / raw_gens (h_deg, q_deg) / d_matrix / d / d_deg / rank and validated by "
        "Trace_ChainCx; every directly built complex at a grid point (h,t) (%s) is compared in homology (Smith normal form / modular rank of LinAlg.tla evaluated by TLC) with all recorded polynomial complexes whose "
        "parameters cover the point. distinct_nontrivial = polynomial complexes + directly built complexes at non-zero points.") % (
            3 if T else 2, rec["links"], 9 if T else 7, ", T(3,5), T(4,5)" if T else "",
            "Z: {-2..2}^2 and 5 more, F2: 3, F3: 8, Q: 5 points" if T else "Z: 9, F2: 3, F3: 4, Q: 3 points")
    ctx.assumptions += [
        "the complex is read through the public API only: h_range, support, raw_gens()[x].h_deg()/q_deg(), d_matrix(i), d(i, gen), d_deg(), rank(i)",
        "homology of the specialised and of the directly built complex is computed by TLC (LinAlg.tla, model-checked against gcd-of-minors); entries stay within 32-bit integers (a TLC overflow would be a tool error)",
        "Q[H] complexes are compared with Q only (ranks, denominators cleared), F2[H] with F2 only; reduced complexes need t = 0, so they are specialised in h only",
        "q-homogeneity is demanded when h and t are the variables or 0 (for numeric h,t != 0 the complex is filtered, not graded)",
        "d(i, .) is compared with d_matrix(i) when the summand's generators are its raw generators (always the case for KhComplex::new)"]
    lines = open(trace).read().splitlines()
    ctx.add_samples([json.loads(l) for l in lines if '"ring":"ZHT"' in l and '"name":"4_1"' in l][:1])
    ctx.add_samples([json.loads(l) for l in lines if '"ring":"Z"' in l and '"h":2' in l and '"name":"3_1"' in l][:1])


def replay(ctx, path):
    """Re-run a saved witness: record the complexes of that link again with the current library and validate them."""
    w = json.load(open(path))
    r = w.get("replay", {})
    print(json.dumps({k: w.get(k) for k in ("property", "key", "what", "seed", "tier")}, indent=1))
    name = r.get("name")
    if name:
        ctx.build_harness()
        p = ctx.path("replay_trace.ndjson")
        ctx.yv("c05", "record", "--seed", w.get("seed", 1), "--tier", w.get("tier", "quick"), "--only", name, "--out", p, timeout=1500)
        rejected, n = validate_chunk(ctx, p, "replay")
        for x in rejected:
            print("REJECTED", json.dumps(x))
        print("%d events, %d rejected" % (n + len(rejected), len(rejected)))
        return 1 if rejected else 0
    print(json.dumps(r)[:4000])
    return 0
